//! Engine `alloc` (C15): `MustNotAllocateDuringUnwind` performs no heap allocation or
//! deallocation during `unwind_frame` / iterator steps, for every module format, and returns
//! exactly what the allocating policy returns.
//!
//! A counting global allocator (installed in `main.rs`) counts every alloc / dealloc / realloc
//! made while `ARMED`; the engine arms it only around the call under test (the stack reader
//! used inside does not allocate). The first allocating call's backtrace is captured to name
//! the call site.
use crate::gen::{gen_mem, gen_modules, gen_regs, interesting_addrs};
use crate::mem::MemDesc;
use crate::rules::show_res;
use crate::spec::*;
use crate::util::*;
use crate::world::*;
use framehop::{FrameAddress, MayAllocateDuringUnwind, MustNotAllocateDuringUnwind, Unwinder};
use std::alloc::{GlobalAlloc, Layout, System};
use std::sync::atomic::{AtomicBool, AtomicU64, Ordering};

pub static ARMED: AtomicBool = AtomicBool::new(false);
pub static EVENTS: AtomicU64 = AtomicU64::new(0);
static WANT_TRACE: AtomicBool = AtomicBool::new(false);
static TRACE: std::sync::Mutex<Option<String>> = std::sync::Mutex::new(None);

pub struct Counting;

fn on_event() {
    if ARMED.load(Ordering::Relaxed) {
        EVENTS.fetch_add(1, Ordering::Relaxed);
        if WANT_TRACE.swap(false, Ordering::Relaxed) {
            // capturing allocates: disarm while doing so
            ARMED.store(false, Ordering::Relaxed);
            let bt = std::backtrace::Backtrace::force_capture().to_string();
            if let Ok(mut t) = TRACE.lock() {
                *t = Some(bt);
            }
            ARMED.store(true, Ordering::Relaxed);
        }
    }
}

unsafe impl GlobalAlloc for Counting {
    unsafe fn alloc(&self, l: Layout) -> *mut u8 {
        on_event();
        System.alloc(l)
    }
    unsafe fn dealloc(&self, p: *mut u8, l: Layout) {
        on_event();
        System.dealloc(p, l)
    }
    unsafe fn realloc(&self, p: *mut u8, l: Layout, n: usize) -> *mut u8 {
        on_event();
        System.realloc(p, l, n)
    }
    unsafe fn alloc_zeroed(&self, l: Layout) -> *mut u8 {
        on_event();
        System.alloc_zeroed(l)
    }
}

/// Runs `f` with the allocator armed; returns its result and the number of heap events.
fn counted<T>(f: impl FnOnce() -> T) -> (T, u64) {
    struct Disarm;
    impl Drop for Disarm {
        fn drop(&mut self) {
            ARMED.store(false, Ordering::Relaxed);
            WANT_TRACE.store(false, Ordering::Relaxed);
        }
    }
    let before = EVENTS.load(Ordering::Relaxed);
    WANT_TRACE.store(true, Ordering::Relaxed);
    ARMED.store(true, Ordering::Relaxed);
    let r = {
        let _g = Disarm;
        f()
    };
    (r, EVENTS.load(Ordering::Relaxed) - before)
}

/// The frames of a captured backtrace that name the allocating call chain inside framehop
/// and its dependencies.
fn summarize_trace() -> (String, String) {
    let t = TRACE.lock().ok().and_then(|mut t| t.take()).unwrap_or_default();
    let mut frames: Vec<String> = Vec::new();
    for l in t.lines() {
        let l = l.trim();
        if let Some((_, name)) = l.split_once(": ") {
            if l.chars().next().map(|c| c.is_ascii_digit()).unwrap_or(false) {
                frames.push(name.to_string());
            }
        }
    }
    let interesting: Vec<String> = frames
        .iter()
        .filter(|f| f.contains("framehop") || f.contains("gimli") || f.contains("pe_unwind_info") || f.contains("macho_unwind_info"))
        .filter(|f| !f.contains("fhv::"))
        .cloned()
        .collect();
    // the innermost frame of framehop or a dependency: where the allocation is requested
    let site = interesting.first().cloned().unwrap_or_else(|| "?".into());
    // strip generic parameters and hashes for a stable key
    let mut key = site.split('<').next().unwrap_or(&site).to_string();
    if let Some(i) = key.rfind("::h") {
        if key[i + 3..].chars().all(|c| c.is_ascii_hexdigit()) {
            key.truncate(i);
        }
    }
    let key: String = key.chars().map(|c| if c.is_alphanumeric() || c == ':' || c == '_' { c } else { '_' }).collect();
    (key, interesting.iter().take(12).cloned().collect::<Vec<_>>().join(" <- "))
}

fn format_of(m: &ModSpec) -> &'static str {
    match &m.data {
        DataSpec::None => "none",
        DataSpec::Dwarf(Pres::Hdr, _) => "eh_frame_hdr",
        DataSpec::Dwarf(Pres::Idx, _) => "eh_frame",
        DataSpec::Dwarf(Pres::Dbg, _) => "debug_frame",
        DataSpec::Pe(_) => "pe",
        DataSpec::Macho(_) => "macho",
    }
}

/// Replaces some rows' rules by expression forms of the same meaning (evaluated by gimli's
/// expression evaluator through the policy's storage).
fn exprify(p: &mut Prng, m: &mut ModSpec) {
    if let DataSpec::Dwarf(_, fdes) = &mut m.data {
        for f in fdes.iter_mut() {
            for (_, row) in f.rows.iter_mut() {
                if let Cfa::RegOff(r, o) = row.cfa {
                    if p.chance(1, 3) && r != DReg::Other {
                        row.cfa = Cfa::ExprRegOff(r, o);
                    }
                }
                for rule in [&mut row.fp, &mut row.ra] {
                    match p.below(8) {
                        0 => *rule = RR::ValExprReg(*p.pick(&[DReg::Sp, DReg::Fp]), 8 * p.below(6) as i64),
                        1 => *rule = RR::ExprReg(*p.pick(&[DReg::Sp, DReg::Fp]), 8 * p.below(6) as i64),
                        _ => {}
                    }
                }
            }
        }
    }
}

struct Case {
    arch: Arch,
    m: ModSpec,
    /// (remember_state nesting, extra register rules, expression stack padding)
    stress: (u8, u16, u8),
    probes: Vec<(u64, bool, RegsAny, MemDesc, bool)>,
    /// Before these probe indices the module set changes (a data-less module is added far
    /// away): the cache keeps entries of the previous module-set identity.
    regen_at: Vec<usize>,
}

fn describe(c: &Case, upto: usize) -> String {
    let mut s = format!("arch={} cfi-padding(remember_state,extra-registers,expression-stack)={:?} mod {}\n", c.arch.name(), c.stress, c.m.line_fields());
    for (k, (addr, is_ra, regs, mem, iter)) in c.probes.iter().take(upto + 1).enumerate() {
        if c.regen_at.contains(&k) {
            s.push_str("add_module(a module without unwind data, elsewhere)   # the module set changes here\n");
        }
        s.push_str(&format!(
            "{} kind={} addr={} {} mem={}\n",
            if *iter { "iter" } else { "unwind" }, if *is_ra { "ra" } else { "ip" }, hex(*addr), regs.line(), mem.to_line()
        ));
    }
    s
}

fn run_case<HA: ArchH, HN: ArchH>(rep: &mut Report, c: &Case) {
    let format = format_of(&c.m);
    crate::cfi::set_stress(c.stress.0, c.stress.1, c.stress.2);
    let module = catch(|| build_module(c.arch, "m", &c.m));
    crate::cfi::set_stress(0, 0, 0);
    let module = match module {
        Ok(m) => m,
        Err(_) => return,
    };
    let mut ua = HA::new_unw();
    let mut un = HN::new_unw();
    ua.add_module(module.clone());
    un.add_module(module);
    let mut ca = HA::new_cache();
    let mut cn = HN::new_cache();
    let mut extra_start = 0x7e00_0000_0000u64;
    for (i, (addr, is_ra, regs, mem, iter)) in c.probes.iter().enumerate() {
        if c.regen_at.contains(&i) {
            // a module-set change between two unwinding calls: not part of the measured region
            let spec = ModSpec { start: extra_start, end: extra_start + 0x1000, base_avma: extra_start, base_svma: 0, data: DataSpec::None, enc: PtrEnc::Abs8, hdr_abs: true, dbg_version: 4, n_cies: 1 };
            extra_start += 0x10000;
            if let Ok(extra) = catch(|| build_module(c.arch, "extra", &spec)) {
                ua.add_module(extra.clone());
                un.add_module(extra);
            }
        }
        // a panic (known: arithmetic inside pe-unwind-info, F8-dep) is the business of C09/C14
        let r = catch(|| step::<HA, HN>(rep, c, i, format, &ua, &un, &mut ca, &mut cn, *addr, *is_ra, regs, mem, *iter));
        if r.is_err() {
            rep.count(&format!("{} {format} call panicked (not judged here)", c.arch.name()));
            // the caches may hold different things now
            ca = HA::new_cache();
            cn = HN::new_cache();
        }
    }
}

#[allow(clippy::too_many_arguments)]
fn step<HA: ArchH, HN: ArchH>(
    rep: &mut Report, c: &Case, i: usize, format: &str, ua: &HA::Unw, un: &HN::Unw, ca: &mut HA::Cache, cn: &mut HN::Cache,
    addr: u64, is_ra: bool, regs: &RegsAny, mem: &MemDesc, iter: bool,
) {
    let (addr, is_ra, iter) = (&addr, &is_ra, &iter);
    {
        let mut rs = |a: u64| mem.read(a);
        if *iter {
            // allocating policy
            let mut items_a = Vec::new();
            {
                let mut it = ua.iter_frames(*addr, HA::to_fh(regs), ca, &mut rs);
                for _ in 0..12 {
                    let x = it.next();
                    let stop = !matches!(x, Ok(Some(_)));
                    items_a.push(show_item(&x));
                    if stop {
                        break;
                    }
                }
            }
            let mut items_n = Vec::new();
            let mut events = 0;
            {
                let mut rs2 = |a: u64| mem.read(a);
                let mut it = un.iter_frames(*addr, HN::to_fh(regs), cn, &mut rs2);
                for _ in 0..12 {
                    let (x, ev) = counted(|| it.next());
                    events += ev;
                    let stop = !matches!(x, Ok(Some(_)));
                    items_n.push(show_item(&x));
                    if stop {
                        break;
                    }
                }
            }
            rep.count(&format!("{} {format} iterator walks compared", c.arch.name()));
            judge(rep, c, i, format, events, &items_a.join(","), &items_n.join(","), "iterator step");
        } else {
            let fa = if *is_ra { FrameAddress::from_return_address(*addr).unwrap() } else { FrameAddress::from_instruction_pointer(*addr) };
            let mut ga = HA::to_fh(regs);
            let ra = ua.unwind_frame(fa, &mut ga, ca, &mut rs);
            let mut gn = HN::to_fh(regs);
            let mut rs2 = |a: u64| mem.read(a);
            let (rn, events) = counted(|| un.unwind_frame(fa, &mut gn, cn, &mut rs2));
            let sa = format!("{} {} {}", show_res(&ra), HA::from_fh(&ga).show(), show_stats(&HA::stats(ca)));
            let sn = format!("{} {} {}", show_res(&rn), HN::from_fh(&gn).show(), show_stats(&HN::stats(cn)));
            rep.count(&format!("{} {format} unwind_frame calls compared", c.arch.name()));
            judge(rep, c, i, format, events, &sa, &sn, "unwind_frame");
        }
    }
}

#[allow(clippy::too_many_arguments)]
fn judge(rep: &mut Report, c: &Case, i: usize, format: &str, events: u64, sa: &str, sn: &str, what: &str) {
    if events != 0 {
        let (key, chain) = summarize_trace();
        rep.add_finding(Finding {
            props: vec!["C15".into()],
            kind: "oracle".into(),
            key: format!("alloc-during-unwind-{format}-{key}"),
            what: format!("{events} heap allocation/deallocation event(s) during one {what} with MustNotAllocateDuringUnwind on a {format} module; allocating call chain: {chain}"),
            case: describe(c, i),
            impl_out: sn.to_string(),
            model_out: String::new(),
        });
    } else {
        rep.count(&format!("{} {format} {what}: no heap events", c.arch.name()));
    }
    // gimli's unwind context has the same capacities under both storages (4 rows, 192 rules);
    // only the expression evaluator's stack (64 values vs a Vec) can make the policies differ
    let within = c.stress.2 <= 60;
    if c.stress != (0, 0, 0) {
        rep.count(&format!("cfi padding: remember_state {} / extra registers {} / expression stack {}", if c.stress.0 > 3 { "beyond" } else if c.stress.0 > 0 { "within" } else { "-" }, if c.stress.1 > 0 { "within" } else { "-" }, if c.stress.2 > 60 { "beyond" } else if c.stress.2 > 0 { "within" } else { "-" }));
    }
    if sa != sn && !within {
        rep.count("beyond StoreOnStack capacity: policies differ (permitted)");
    }
    if sa != sn && within {
        rep.add_finding(Finding {
            props: vec!["C15".into()],
            kind: "oracle".into(),
            key: format!("policies-disagree-{format}"),
            what: format!("MustNotAllocateDuringUnwind returns {sn} where MayAllocateDuringUnwind returns {sa} ({what}, {format} module)"),
            case: describe(c, i),
            impl_out: sn.to_string(),
            model_out: sa.to_string(),
        });
    }
}

fn gen_case(p: &mut Prng, arch: Arch, kind: u64) -> Case {
    let (m, rel): (ModSpec, Vec<u64>) = match kind {
        0 | 1 => {
            let mut m = gen_modules(p, arch, 1, None).remove(0);
            if kind == 1 {
                exprify(p, &mut m);
            }
            let rel = interesting_addrs(&m).into_iter().map(|a| a.wrapping_sub(m.base_avma)).collect();
            (m, rel)
        }
        2 => crate::macho::gen_random_macho(p, arch),
        _ => {
            let mut specs = Vec::new();
            let mut begin = 0x1000u32;
            let mut rel = Vec::new();
            for i in 0..(1 + p.below(4)) {
                let nc = p.below(2) as usize;
                let f = crate::pe::gen_pe_func(p, begin, nc, i == 0);
                let mut off = f.spec.begin as u64;
                for ins in &f.insns {
                    rel.push(off);
                    off += ins.bytes.len() as u64;
                }
                begin = f.spec.end + p.below(0x10) as u32;
                match f.split_at {
                    Some(k) if !f.leaf_without_entry => {
                        // chained unwind info (a function split into two table entries)
                        let o: usize = f.insns[..k].iter().map(|i| i.bytes.len()).sum();
                        let mid = f.spec.begin + o as u32;
                        let mut a = f.spec.clone();
                        a.end = mid;
                        a.bytes = f.spec.bytes[..o].to_vec();
                        let mut b = f.spec.clone();
                        b.begin = mid;
                        b.bytes = f.spec.bytes[o..].to_vec();
                        b.infos = vec![crate::pe::PeInfoSpec { codes: vec![] }, f.spec.infos[0].clone()];
                        specs.push(a);
                        specs.push(b);
                    }
                    _ if !f.leaf_without_entry => specs.push(f.spec.clone()),
                    _ => {}
                }
            }
            crate::pe::pad_chains(p, &mut specs, true);
            let image_base: u64 = *p.pick(&[0x1_4000_0000u64, 0x40_0000]);
            let m = ModSpec {
                start: image_base + 0x1000,
                end: image_base + begin as u64 + 0x40,
                base_avma: image_base,
                base_svma: *p.pick(&[0x1_4000_0000u64, 0]),
                data: DataSpec::Pe(specs),
                enc: PtrEnc::Abs8,
                hdr_abs: true,
                dbg_version: 4,
                n_cies: 1,
            };
            (m, rel)
        }
    };
    let mut probes = Vec::new();
    let n = 6 + p.below(10);
    for _ in 0..n {
        let addr = if !rel.is_empty() && p.chance(9, 10) { m.base_avma.wrapping_add(*p.pick(&rel)) } else { m.start.wrapping_add(p.below(m.end - m.start)) };
        let is_ra = p.chance(1, 3) && addr != 0;
        let regs = gen_regs(p, arch, addr);
        let mem = gen_mem(p, &regs);
        let iter = p.chance(1, 5);
        probes.push((addr, is_ra, regs.clone(), mem.clone(), iter));
        if p.chance(1, 2) {
            // the same call again: a cache hit
            probes.push((addr, is_ra, regs, mem, iter));
        }
    }
    // a run of calls whose lookup addresses all map to one cache slot (one cache, one module
    // set): whatever the cache does with displaced entries, it must not touch the heap
    if p.chance(1, 6) {
        let n_slots = crate::hist::cache_entry_count();
        let a0 = m.start.wrapping_add(p.below((m.end - m.start).max(1)));
        for k in 0..(12 + p.below(16)) {
            let addr = a0.wrapping_add(k * n_slots);
            if addr == 0 {
                continue;
            }
            let regs = gen_regs(p, arch, addr);
            let mem = gen_mem(p, &regs);
            probes.push((addr, false, regs, mem, false));
        }
    }
    // both sides of the capacities of gimli's storages (4 rows, 192 rules - the same for both
    // policies - and 64 expression stack values for `StoreOnStack` only)
    let stress = if matches!(m.data, DataSpec::Dwarf(..)) && kind == 1 {
        match p.below(7) {
            0 => (p.below(4) as u8, 0, 0),
            1 => (0, p.below(150) as u16, 0),
            2 => (0, 0, p.below(60) as u8),
            3 => (p.below(4) as u8, p.below(100) as u16, p.below(40) as u8),
            4 => (4 + p.below(3) as u8, 0, 0),   // beyond the row stack: both policies give up alike
            5 => (0, 150 + p.below(100) as u16, 0), // beyond the rule table: alike
            6 if p.chance(1, 3) => (0, 0, 64 + p.below(20) as u8), // beyond StoreOnStack's value stack: may differ
            _ => (0, 0, 0),
        }
    } else {
        (0, 0, 0)
    };
    // module-set changes in the middle of the probe sequence (the same addresses are probed
    // before and after: stale entries of the previous identity are met)
    let mut regen_at = Vec::new();
    if p.chance(1, 3) && probes.len() >= 4 {
        let k = 1 + p.below(probes.len() as u64 - 2) as usize;
        regen_at.push(k);
        // repeat the earlier probes after the change
        let earlier: Vec<_> = probes[..k].to_vec();
        for e in earlier.into_iter().take(6) {
            probes.push(e);
        }
        if p.chance(1, 3) {
            regen_at.push(probes.len() - 2);
        }
    }
    Case { arch, m, probes, stress, regen_at }
}

pub fn run(tier: &str, seed: u64) -> Report {
    let mut rep = Report::new("alloc");
    // the counter is live: an allocation made while armed is seen
    let (_, ev) = counted(|| std::hint::black_box(vec![1u8; 64]).len());
    if ev == 0 {
        rep.add_finding(Finding {
            props: vec!["C15".into()],
            kind: "oracle".into(),
            key: "allocation-counter-not-live".into(),
            what: "the counting allocator did not see a deliberate allocation".into(),
            ..Default::default()
        });
    }
    let _ = summarize_trace();
    let mut p = Prng::new(seed.wrapping_mul(0x510e_527f_ade6_82d1).wrapping_add(23));
    let n: u64 = if tier == "thorough" { 120000 } else { 6000 };
    for id in 0..n {
        let arch = if id % 2 == 0 { Arch::X64 } else { Arch::A64 };
        let kind = match (id / 2) % 8 {
            0 | 1 => 0,
            2 | 3 | 4 => 1,
            5 | 6 => 2,
            _ => {
                if arch == Arch::X64 {
                    3
                } else {
                    1
                }
            }
        };
        let c = gen_case(&mut p, arch, kind);
        rep.cases += c.probes.len() as u64;
        match arch {
            Arch::X64 => run_case::<X64H<MayAllocateDuringUnwind>, X64H<MustNotAllocateDuringUnwind>>(&mut rep, &c),
            Arch::A64 => run_case::<A64H<MayAllocateDuringUnwind>, A64H<MustNotAllocateDuringUnwind>>(&mut rep, &c),
        }
    }
    rep
}

