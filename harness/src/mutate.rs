//! Engine `mut` (C14): hostile unwind data. Well-formed modules of every format (generated
//! DWARF in three presentations, PE, Mach-O; and the real binaries under /repo/fixtures) are
//! turned into raw section tables, corrupted (bit flips, truncation, splicing, length-field
//! edits, random runs, inconsistent or absurd address ranges and base addresses), and then
//! created, added and unwound through under `catch_unwind` with overflow checks on. A panic
//! whose location lies in /repo/src is a violation; panics inside dependencies are counted
//! and reported separately. Every case is written to an in-flight file before it runs, so a
//! hang (the harness is killed by the check's timeout) leaves the offending case behind.
use crate::gen::{gen_mem, gen_modules, gen_regs};
use crate::spec::*;
use crate::util::*;
use crate::world::*;
use framehop::{MayAllocateDuringUnwind, ModuleSectionInfo, MustNotAllocateDuringUnwind};
use std::collections::BTreeMap;
use std::ops::Range;

#[derive(Clone, Debug, Default)]
pub struct RawSections {
    pub base_svma: u64,
    pub svma: BTreeMap<&'static str, Range<u64>>,
    pub data: BTreeMap<&'static str, Vec<u8>>,
}

/// Canonical key of a section/segment name.
fn key_of(name: &[u8], segment: bool) -> Option<&'static str> {
    if segment {
        return match name {
            b"__TEXT" => Some("text_segment"),
            _ => None,
        };
    }
    Some(match name {
        b"__text" | b".text" => "text",
        b"__stubs" => "stubs",
        b"__stub_helper" => "stub_helper",
        b"__eh_frame" | b".eh_frame" => "eh_frame",
        b"__eh_frame_hdr" | b".eh_frame_hdr" => "eh_frame_hdr",
        b"__got" | b".got" => "got",
        b"__unwind_info" => "unwind_info",
        b".debug_frame" => "debug_frame",
        b".pdata" => "pdata",
        b".xdata" => "xdata",
        b".rdata" => "rdata",
        _ => return None,
    })
}

const ALL_KEYS: [&str; 12] = [
    "text", "stubs", "stub_helper", "eh_frame", "eh_frame_hdr", "got", "unwind_info", "debug_frame", "pdata", "xdata", "rdata", "text_segment",
];

impl ModuleSectionInfo<Bytes> for RawSections {
    fn base_svma(&self) -> u64 {
        self.base_svma
    }
    fn section_svma_range(&mut self, name: &[u8]) -> Option<Range<u64>> {
        self.svma.get(key_of(name, false)?).cloned()
    }
    fn section_data(&mut self, name: &[u8]) -> Option<Bytes> {
        self.data.get(key_of(name, false)?).map(|v| Bytes(std::sync::Arc::new(v.clone())))
    }
    fn segment_svma_range(&mut self, name: &[u8]) -> Option<Range<u64>> {
        self.svma.get(key_of(name, true)?).cloned()
    }
    fn segment_data(&mut self, name: &[u8]) -> Option<Bytes> {
        self.data.get(key_of(name, true)?).map(|v| Bytes(std::sync::Arc::new(v.clone())))
    }
}

impl RawSections {
    /// Collects everything a section provider offers.
    pub fn from_provider(mut info: impl ModuleSectionInfo<Bytes>) -> RawSections {
        let mut r = RawSections { base_svma: info.base_svma(), ..Default::default() };
        let names: [(&[u8], bool); 12] = [
            (b".text", false), (b"__stubs", false), (b"__stub_helper", false), (b".eh_frame", false), (b".eh_frame_hdr", false), (b".got", false),
            (b"__unwind_info", false), (b".debug_frame", false), (b".pdata", false), (b".xdata", false), (b".rdata", false), (b"__TEXT", true),
        ];
        for (n, seg) in names {
            let k = key_of(n, seg).unwrap();
            let (range, data) = if seg { (info.segment_svma_range(n), info.segment_data(n)) } else { (info.section_svma_range(n), info.section_data(n)) };
            if let Some(x) = range {
                r.svma.insert(k, x);
            }
            if let Some(d) = data {
                r.data.insert(k, d.0.as_ref().clone());
            }
        }
        r
    }

    pub fn describe(&self) -> String {
        let mut s = format!("base_svma={}", hex(self.base_svma));
        for k in ALL_KEYS {
            if self.svma.contains_key(k) || self.data.contains_key(k) {
                let r = self.svma.get(k).map(|r| format!("{}-{}", hex(r.start), hex(r.end))).unwrap_or("-".into());
                let d = self.data.get(k).map(|d| d.iter().map(|b| format!("{b:02x}")).collect::<String>()).unwrap_or("-".into());
                s.push_str(&format!(" {k}={r}:{d}"));
            }
        }
        s
    }

    pub fn parse(desc: &str) -> Option<RawSections> {
        let mut r = RawSections::default();
        for tok in desc.split(' ') {
            let (k, v) = tok.split_once('=')?;
            if k == "base_svma" {
                r.base_svma = u64::from_str_radix(v, 16).ok()?;
                continue;
            }
            let key = *ALL_KEYS.iter().find(|x| **x == k)?;
            let (range, data) = v.split_once(':')?;
            if range != "-" {
                let (a, b) = range.split_once('-')?;
                r.svma.insert(key, u64::from_str_radix(a, 16).ok()?..u64::from_str_radix(b, 16).ok()?);
            }
            if data != "-" {
                let bytes: Option<Vec<u8>> = (0..data.len() / 2).map(|i| u8::from_str_radix(&data[2 * i..2 * i + 2], 16).ok()).collect();
                r.data.insert(key, bytes?);
            }
        }
        Some(r)
    }
}

// ------------------------------------------------------------------------------------------
// well-formed starting points

#[derive(Clone)]
pub struct Start {
    pub format: &'static str,
    pub arch: Arch,
    pub range: Range<u64>,
    pub base_avma: u64,
    pub raw: RawSections,
    /// relative addresses worth probing
    pub rel: Vec<u64>,
}

fn start_generated(p: &mut Prng, arch: Arch) -> Start {
    match p.below(if arch == Arch::X64 { 3 } else { 2 }) {
        0 => {
            let m = gen_modules(p, arch, 1, None).remove(0);
            let rel: Vec<u64> = crate::gen::interesting_addrs(&m).into_iter().map(|a| a.wrapping_sub(m.base_avma)).collect();
            let format = match &m.data {
                DataSpec::Dwarf(Pres::Hdr, _) => "eh_frame_hdr",
                DataSpec::Dwarf(Pres::Idx, _) => "eh_frame",
                DataSpec::Dwarf(Pres::Dbg, _) => "debug_frame",
                _ => "none",
            };
            Start { format, arch, range: m.start..m.end, base_avma: m.base_avma, raw: RawSections::from_provider(dwarf_section_info(arch, &m)), rel }
        }
        1 => {
            let (m, rel) = crate::macho::gen_random_macho(p, arch);
            let DataSpec::Macho(spec) = &m.data else { unreachable!() };
            Start { format: "macho", arch, range: m.start..m.end, base_avma: m.base_avma, raw: RawSections::from_provider(crate::macho::macho_section_info(arch, &m, spec)), rel }
        }
        _ => {
            let mut specs = Vec::new();
            let mut begin = 0x1000u32;
            let mut rel = Vec::new();
            for i in 0..(1 + p.below(4)) {
                let nc = p.below(2) as usize;
                let f = crate::pe::gen_pe_func(p, begin, nc, i == 0);
                let mut off = f.spec.begin as u64;
                for ins in &f.insns {
                    rel.push(off);
                    off += ins.bytes.len() as u64;
                }
                begin = f.spec.end + p.below(0x10) as u32;
                if !f.leaf_without_entry {
                    specs.push(f.spec.clone());
                }
            }
            if p.chance(1, 2) {
                let u = crate::pe::gen_unusual_pe_func(p, begin);
                for k in 0..u.bytes.len() as u64 {
                    rel.push(u.begin as u64 + k);
                }
                begin = u.end;
                specs.push(u);
            }
            rel.extend_from_slice(&[0x1000, begin as u64, begin as u64 + 0x10]);
            let image_base: u64 = *p.pick(&[0x1_4000_0000u64, 0x40_0000]);
            let base_svma = *p.pick(&[0x1_4000_0000u64, 0]);
            crate::pe::pad_chains(p, &mut specs, true);
            let image = crate::pe::write_pe(&specs, 0x1000);
            let end = image_base + begin as u64 + 0x40;
            Start { format: "pe", arch, range: image_base + 0x1000..end, base_avma: image_base, raw: RawSections::from_provider(crate::pe::PeSectionInfo { base_svma, image }), rel }
        }
    }
}

/// Sections of a real binary (ELF or Mach-O) from the repository's fixtures.
fn start_fixture(path: &str) -> Option<Start> {
    use object::{Object, ObjectSection, ObjectSegment};
    let buf = std::fs::read(path).ok()?;
    if buf.is_empty() {
        return None;
    }
    let file = object::File::parse(&buf[..]).ok()?;
    let arch = match file.architecture() {
        object::Architecture::X86_64 => Arch::X64,
        object::Architecture::Aarch64 => Arch::A64,
        _ => return None,
    };
    let text_seg = file.segments().find(|s| s.name() == Ok(Some("__TEXT")));
    let base_svma = match &text_seg {
        Some(s) => s.address(),
        None => file.relative_address_base(),
    };
    let mut raw = RawSections { base_svma, ..Default::default() };
    for (names, key) in [
        (&[".text", "__text"][..], "text"), (&["__stubs"][..], "stubs"), (&["__stub_helper"][..], "stub_helper"),
        (&[".eh_frame", "__eh_frame"][..], "eh_frame"), (&[".eh_frame_hdr", "__eh_frame_hdr"][..], "eh_frame_hdr"), (&[".got", "__got"][..], "got"),
        (&["__unwind_info"][..], "unwind_info"), (&[".debug_frame"][..], "debug_frame"), (&[".pdata"][..], "pdata"), (&[".xdata"][..], "xdata"), (&[".rdata"][..], "rdata"),
    ] {
        for n in names {
            if let Some(sec) = file.section_by_name(n) {
                raw.svma.insert(key, sec.address()..sec.address() + sec.size());
                // the text itself is only needed for instruction analysis; keep it small
                if let Ok(d) = sec.data() {
                    if key != "text" || d.len() <= 0x20000 {
                        raw.data.insert(key, d.to_vec());
                    }
                }
                break;
            }
        }
    }
    if raw.data.is_empty() {
        return None;
    }
    let text = raw.svma.get("text").cloned().unwrap_or(base_svma..base_svma + 0x1000);
    let base_avma = 0x5555_0000_0000u64;
    let lo = text.start.wrapping_sub(base_svma);
    let hi = text.end.wrapping_sub(base_svma);
    let mut rel = vec![lo, lo + 1, hi.wrapping_sub(1), hi, lo + (hi - lo) / 2];
    for k in 1..40u64 {
        rel.push(lo + (hi.wrapping_sub(lo)) / 41 * k + k % 7);
    }
    Some(Start { format: "fixture", arch, range: base_avma + lo..base_avma + hi.max(lo + 1), base_avma, raw, rel })
}

// ------------------------------------------------------------------------------------------
// corruption

fn interesting_u32(p: &mut Prng, len: usize) -> u32 {
    match p.below(10) {
        0 => 0,
        1 => 1,
        2 => 0xffff_ffff,
        3 => 0x7fff_ffff,
        4 => 0x8000_0000,
        5 => len as u32,
        6 => len as u32 + 1,
        7 => (len as u32).wrapping_sub(1 + p.below(8) as u32),
        8 => 0xffff_fff0 + p.below(16) as u32,
        _ => p.next() as u32,
    }
}

fn mutate_bytes(p: &mut Prng, d: &mut Vec<u8>, other: &[u8]) -> &'static str {
    let len = d.len();
    match p.below(11) {
        0 | 1 if len > 0 => {
            for _ in 0..(1 + p.below(4)) {
                let i = p.below(len as u64) as usize;
                d[i] ^= 1 << p.below(8);
            }
            "bit-flips"
        }
        2 if len > 0 => {
            d.truncate(p.below(len as u64) as usize);
            "truncate"
        }
        3 | 4 if len >= 4 => {
            let i = (p.below(len as u64 - 3) as usize) & if p.chance(2, 3) { !3 } else { !0 };
            let v = interesting_u32(p, len);
            d[i..i + 4].copy_from_slice(&v.to_le_bytes());
            "u32-field-edit"
        }
        5 if len >= 2 => {
            let i = p.below(len as u64 - 1) as usize;
            let v = *p.pick(&[0u16, 1, 0xffff, 0x7fff, 0x8000, len as u16]);
            d[i..i + 2].copy_from_slice(&v.to_le_bytes());
            "u16-field-edit"
        }
        6 if len > 0 => {
            let i = p.below(len as u64) as usize;
            let n = (1 + p.below(16) as usize).min(len - i);
            for b in &mut d[i..i + n] {
                *b = p.next() as u8;
            }
            "random-run"
        }
        7 if len > 0 && !other.is_empty() => {
            let i = p.below(len as u64) as usize;
            let j = p.below(other.len() as u64) as usize;
            let n = (1 + p.below(32) as usize).min(len - i).min(other.len() - j);
            d[i..i + n].copy_from_slice(&other[j..j + n]);
            "splice"
        }
        8 => {
            for _ in 0..(1 + p.below(24)) {
                d.push(p.next() as u8);
            }
            "append-garbage"
        }
        9 if len > 0 => {
            let i = p.below(len as u64) as usize;
            let v = *p.pick(&[0u8, 0xff, 0x80, 0x7f]);
            d[i] = v;
            "byte-edit"
        }
        _ => {
            let n = p.below(32) as usize;
            *d = (0..n).map(|_| p.next() as u8).collect();
            "replace-with-noise"
        }
    }
}

fn mutate_range(p: &mut Prng, r: &mut Range<u64>, base: u64) -> &'static str {
    match p.below(9) {
        0 => {
            std::mem::swap(&mut r.start, &mut r.end);
            "range-reversed"
        }
        1 => {
            r.start = base.wrapping_sub(1 + p.below(0x1000));
            "range-starts-below-base"
        }
        2 => {
            r.end = u64::MAX - p.below(2);
            "range-end-max"
        }
        3 => {
            r.start = 0;
            "range-start-zero"
        }
        4 => {
            let k = 1 + p.below(0x40);
            r.start = r.start.wrapping_add(k);
            "range-start-shifted"
        }
        5 => {
            r.end = r.start;
            "range-empty"
        }
        6 => {
            r.end = r.end.wrapping_add(p.below(0x1_0000_0000));
            "range-longer-than-data"
        }
        7 => {
            r.start = r.start.wrapping_add(0x1_0000_0000);
            r.end = r.end.wrapping_add(0x1_0000_0000);
            "range-beyond-u32"
        }
        _ => {
            r.end = r.start.wrapping_add(p.below(8));
            "range-shorter-than-data"
        }
    }
}

pub fn corrupt(p: &mut Prng, s: &mut Start) -> Vec<&'static str> {
    let mut tags = Vec::new();
    let n = 1 + p.below(3);
    for _ in 0..n {
        let data_keys: Vec<&'static str> = s.raw.data.keys().cloned().collect();
        let range_keys: Vec<&'static str> = s.raw.svma.keys().cloned().collect();
        match p.below(10) {
            0..=5 if !data_keys.is_empty() => {
                let k = *p.pick(&data_keys);
                let other: Vec<u8> = s.raw.data.get(*p.pick(&data_keys)).cloned().unwrap_or_default();
                let d = s.raw.data.get_mut(k).unwrap();
                tags.push(mutate_bytes(p, d, &other));
            }
            6 | 7 if !range_keys.is_empty() => {
                let k = *p.pick(&range_keys);
                let base = s.raw.base_svma;
                let r = s.raw.svma.get_mut(k).unwrap();
                tags.push(mutate_range(p, r, base));
            }
            8 => match p.below(4) {
                0 if !range_keys.is_empty() => {
                    let k = *p.pick(&range_keys);
                    s.raw.svma.remove(k);
                    tags.push("range-missing");
                }
                1 if !data_keys.is_empty() => {
                    let k = *p.pick(&data_keys);
                    s.raw.data.remove(k);
                    tags.push("data-missing");
                }
                2 => {
                    s.raw.base_svma = *p.pick(&[0u64, u64::MAX, s.raw.base_svma.wrapping_add(0x1000), s.raw.base_svma.wrapping_add(0x1_0000_0000), 1]);
                    tags.push("base-svma-changed");
                }
                _ => {
                    // a section reported under another section's name
                    if data_keys.len() >= 2 {
                        let a = *p.pick(&data_keys);
                        let b = *p.pick(&data_keys);
                        let da = s.raw.data[a].clone();
                        s.raw.data.insert(b, da);
                        tags.push("sections-swapped");
                    }
                }
            },
            _ => match p.below(4) {
                0 => {
                    s.base_avma = s.range.start.wrapping_add(1 + p.below(0x100));
                    tags.push("base-avma-above-range-start");
                }
                1 => {
                    s.range = s.range.start..s.range.start;
                    tags.push("avma-range-empty");
                }
                2 => {
                    s.range = s.range.start..u64::MAX;
                    tags.push("avma-range-to-max");
                }
                _ => {
                    s.base_avma = s.base_avma.wrapping_sub(0x1_0000_0000);
                    tags.push("base-avma-far-below");
                }
            },
        }
    }
    tags
}

// ------------------------------------------------------------------------------------------
// running a case

pub struct Probe {
    pub addr: u64,
    pub is_ra: bool,
    pub regs: RegsAny,
    pub mem: crate::mem::MemDesc,
    pub iter: bool,
}

fn case_text(s: &Start, probes: &[Probe]) -> String {
    let mut t = format!(
        "mutcase arch={} format={} start={} end={} base={} sections: {}\n",
        s.arch.name(), s.format, hex(s.range.start), hex(s.range.end), hex(s.base_avma), s.raw.describe()
    );
    for pr in probes {
        t.push_str(&format!(
            "probe kind={} addr={} iter={} {} mem={}\n",
            if pr.is_ra { "ra" } else { "ip" }, hex(pr.addr), pr.iter as u8, pr.regs.line(), pr.mem.to_line()
        ));
    }
    t
}

/// Runs one case on the implementation; returns the panics (location, phase).
fn run_case<H: ArchH>(s: &Start, probes: &[Probe], rep: &mut Report) -> Vec<(String, String)> {
    let mut panics = Vec::new();
    let module = match catch(|| framehop::Module::new("m".to_string(), s.range.clone(), s.base_avma, s.raw.clone())) {
        Ok(m) => m,
        Err(loc) => {
            panics.push((loc, "Module::new".to_string()));
            return panics;
        }
    };
    let mut unw = H::new_unw();
    if let Err(loc) = catch(|| {
        use framehop::Unwinder;
        unw.add_module(module)
    }) {
        panics.push((loc, "add_module".to_string()));
        return panics;
    }
    let mut cache = H::new_cache();
    for pr in probes {
        if pr.iter {
            use framehop::Unwinder;
            let mut rs = |a: u64| pr.mem.read(a);
            let r = catch(|| {
                let mut it = unw.iter_frames(pr.addr, H::to_fh(&pr.regs), &mut cache, &mut rs);
                let mut n = 0;
                while let Ok(Some(_)) = it.next() {
                    n += 1;
                    if n >= 24 {
                        break;
                    }
                }
                n
            });
            match r {
                Ok(_) => rep.count(&format!("{} {} iter completes", s.arch.name(), s.format)),
                Err(loc) => panics.push((loc, "iter_frames".to_string())),
            }
        } else {
            let (r, _) = World::<H>::unwind_once(&unw, &mut cache, pr.is_ra, pr.addr, &pr.regs, &pr.mem);
            match r {
                Ok((res, _)) => rep.count(&format!(
                    "{} {} unwind -> {}",
                    s.arch.name(), s.format,
                    match res {
                        Ok(Some(_)) => "frame",
                        Ok(None) => "done",
                        Err(_) => "err",
                    }
                )),
                Err(loc) => panics.push((loc, "unwind_frame".to_string())),
            }
        }
    }
    panics
}

fn gen_probes(p: &mut Prng, s: &Start, n: usize) -> Vec<Probe> {
    let mut v = Vec::new();
    for _ in 0..n {
        let rel = if !s.rel.is_empty() && p.chance(4, 5) { *p.pick(&s.rel) } else { p.below(s.range.end.wrapping_sub(s.range.start).max(1)) };
        let addr = match p.below(12) {
            0 => s.range.start,
            1 => s.range.end.wrapping_sub(1),
            _ => s.base_avma.wrapping_add(rel),
        };
        let is_ra = p.chance(1, 3) && addr != 0;
        let regs = gen_regs(p, s.arch, addr);
        let mem = gen_mem(p, &regs);
        v.push(Probe { addr, is_ra, regs, mem, iter: p.chance(1, 6) });
    }
    v
}

pub fn run(tier: &str, seed: u64, out: Option<&str>) -> Report {
    let mut rep = Report::new("mut");
    let mut p = Prng::new(seed.wrapping_mul(0xa54f_f53a_5f1d_36f1).wrapping_add(17));
    let inflight = out.map(|o| format!("{o}.inflight"));
    let n_gen: u64 = if tier == "thorough" { 400000 } else { 12000 };
    let n_fix: u64 = if tier == "thorough" { 6000 } else { 300 };
    // fixtures
    let mut fixtures: Vec<Start> = Vec::new();
    let mut stack = vec![std::path::PathBuf::from("/repo/fixtures")];
    let mut files = Vec::new();
    while let Some(d) = stack.pop() {
        if let Ok(rd) = std::fs::read_dir(&d) {
            for e in rd.flatten() {
                let pth = e.path();
                if pth.is_dir() {
                    stack.push(pth);
                } else {
                    files.push(pth);
                }
            }
        }
    }
    files.sort();
    for f in files {
        if let Some(s) = start_fixture(&f.to_string_lossy()) {
            rep.count(&format!("fixture loaded ({})", s.arch.name()));
            fixtures.push(s);
        }
    }
    for id in 0..(n_gen + n_fix) {
        let from_fixture = id >= n_gen && !fixtures.is_empty();
        let mut s = if from_fixture {
            p.pick(&fixtures).clone()
        } else {
            let arch = if id % 2 == 0 { Arch::X64 } else { Arch::A64 };
            start_generated(&mut p, arch)
        };
        // one in ten cases stays well-formed (the baseline must be quiet too)
        let tags = if id % 10 == 9 { vec!["unmodified"] } else { corrupt(&mut p, &mut s) };
        let probes = gen_probes(&mut p, &s, if from_fixture { 10 } else { 16 });
        let must_not = id % 4 == 3;
        if let Some(f) = &inflight {
            // cheap for generated modules; for fixtures only the mutation recipe is recorded
            let text = if from_fixture { format!("fixture case id={id} seed={seed} tags={tags:?}\n") } else { case_text(&s, &probes) };
            let _ = std::fs::write(f, text);
        }
        let t0 = std::time::Instant::now();
        let panics = match (s.arch, must_not) {
            (Arch::X64, false) => run_case::<X64H<MayAllocateDuringUnwind>>(&s, &probes, &mut rep),
            (Arch::X64, true) => run_case::<X64H<MustNotAllocateDuringUnwind>>(&s, &probes, &mut rep),
            (Arch::A64, false) => run_case::<A64H<MayAllocateDuringUnwind>>(&s, &probes, &mut rep),
            (Arch::A64, true) => run_case::<A64H<MustNotAllocateDuringUnwind>>(&s, &probes, &mut rep),
        };
        let dt = t0.elapsed().as_secs_f64();
        rep.cases += 1;
        for t in &tags {
            rep.count(&format!("mutation {t}"));
        }
        rep.count(&format!("format {}", s.format));
        if dt > 5.0 {
            rep.add_finding(Finding {
                props: vec!["C14".into()],
                kind: "oracle".into(),
                key: format!("mut-slow-case-{}", s.format),
                what: format!("a single corrupted module took {dt:.1}s to add and probe (possible unbounded loop); mutations {tags:?}"),
                case: case_text(&s, &probes),
                impl_out: format!("{dt:.1}s"),
                model_out: String::new(),
            });
        }
        for (loc, phase) in panics {
            let own = panic_in_own_code(&loc);
            let short = loc.split(':').take(2).collect::<Vec<_>>().join(":");
            // drop the registry directory (machine specific) from dependency paths
            let short = match short.split_once("/registry/src/") {
                Some((_, rest)) => rest.split_once('/').map(|x| x.1).unwrap_or(rest).to_string(),
                None => short,
            };
            if own {
                rep.add_finding(Finding {
                    props: vec!["C14".into()],
                    kind: "oracle".into(),
                    key: format!("mut-own-panic-{short}"),
                    what: format!("{phase} panicked outside the third-party parsers (at {loc}) on a corrupted {} module (mutations {tags:?})", s.format),
                    case: case_text(&s, &probes),
                    impl_out: "panic".into(),
                    model_out: String::new(),
                });
            } else {
                rep.count(&format!("dependency panic in {phase}: {short}"));
                rep.add_finding(Finding {
                    props: vec!["C14-dep".into()],
                    kind: "oracle".into(),
                    key: format!("mut-dependency-panic-{}", short.split('/').next().unwrap_or("?")),
                    what: format!("{phase} panicked inside a dependency at {loc} on a corrupted {} module (mutations {tags:?}); not framehop's own code", s.format),
                    case: case_text(&s, &probes),
                    impl_out: "panic".into(),
                    model_out: String::new(),
                });
            }
        }
    }
    if let Some(f) = &inflight {
        let _ = std::fs::remove_file(f);
    }
    rep
}

/// Replays a `mutcase` text (as written into findings / the in-flight file).
pub fn replay(text: &str) -> Vec<(String, String)> {
    let mut lines = text.lines();
    let head = lines.next().unwrap_or("");
    let Some((meta, secs)) = head.split_once(" sections: ") else { return vec![("unparsable".into(), "replay".into())] };
    let f: BTreeMap<&str, &str> = meta.split(' ').filter_map(|t| t.split_once('=')).collect();
    let hx = |k: &str| u64::from_str_radix(f.get(k).copied().unwrap_or("0"), 16).unwrap_or(0);
    let arch = if f.get("arch") == Some(&"a64") { Arch::A64 } else { Arch::X64 };
    let Some(raw) = RawSections::parse(secs) else { return vec![("unparsable sections".into(), "replay".into())] };
    let s = Start { format: "replay", arch, range: hx("start")..hx("end"), base_avma: hx("base"), raw, rel: vec![] };
    let mut probes = Vec::new();
    for l in lines {
        let fs: BTreeMap<&str, &str> = l.split(' ').filter_map(|t| t.split_once('=')).collect();
        let Some(addr) = fs.get("addr").and_then(|a| u64::from_str_radix(a, 16).ok()) else { continue };
        let Some(regs) = crate::rules::parse_regs_any(arch, &fs) else { continue };
        let Some(mem) = fs.get("mem").and_then(|m| crate::mem::MemDesc::from_line(m)) else { continue };
        probes.push(Probe { addr, is_ra: fs.get("kind") == Some(&"ra"), regs, mem, iter: fs.get("iter") == Some(&"1") });
    }
    let mut rep = Report::new("mut-replay");
    match arch {
        Arch::X64 => run_case::<X64H<MayAllocateDuringUnwind>>(&s, &probes, &mut rep),
        Arch::A64 => run_case::<A64H<MayAllocateDuringUnwind>>(&s, &probes, &mut rep),
    }
}
