//! Synthesized programs with ground truth: functions built from the standard compiler
//! prologue/epilogue shapes, with real instruction bytes, the CFI rows that exactly describe
//! every instruction boundary, and a machine-state simulator that produces the true call
//! chain, the stack contents and the caller registers for a thread stopped anywhere.
//!
//! The ground truth is *checked*, not trusted: every scenario is also sent to the Lean driver,
//! which evaluates the DWARF specification of each frame's row on the callee state (see
//! `scn.rs`); a scenario whose truth the specification does not confirm is a generator bug.
use crate::spec::*;
use crate::util::Prng;

/// x86-64 callee-saved registers other than rbp, with their push/pop encodings.
pub const X64_SAVED: [(&str, &[u8], &[u8]); 5] = [
    ("rbx", &[0x53], &[0x5b]),
    ("r12", &[0x41, 0x54], &[0x41, 0x5c]),
    ("r13", &[0x41, 0x55], &[0x41, 0x5d]),
    ("r14", &[0x41, 0x56], &[0x41, 0x5e]),
    ("r15", &[0x41, 0x57], &[0x41, 0x5f]),
];

#[derive(Clone, Debug, PartialEq)]
pub enum Eff {
    /// No effect on sp/fp/lr (body instruction).
    None,
    // ---- x86-64
    PushFp,
    MovFpSp,
    PushOther,
    SubSp(u64),
    AddSp(u64),
    PopOther,
    PopFp,
    /// Body instruction that overwrites the frame pointer register with garbage (the function
    /// uses it as a general purpose register after saving it).
    ClobberFp(u64),
    /// `call`: return address = address of the next instruction.
    Call,
    Ret,
    // ---- aarch64
    /// `stp x29, x30, [sp, #-n]!`
    StpFpLrPre(u64),
    /// `stp x29, x30, [sp, #off]`
    StpFpLrOff(u64),
    /// `add x29, sp, #off`
    AddFpSp(u64),
    /// `ldp x29, x30, [sp], #n`
    LdpFpLrPost(u64),
    /// `ldp x29, x30, [sp, #off]`
    LdpFpLrOff(u64),
    /// `paciasp` / `pacibsp`: signs lr
    Sign,
    /// `autiasp`: removes the signature
    Auth,
}

#[derive(Clone, Debug)]
pub struct Insn {
    pub bytes: Vec<u8>,
    pub eff: Eff,
}

#[derive(Clone, Copy, Debug, PartialEq, Eq)]
pub enum Shape {
    /// `push rbp; mov rbp, rsp; push*; sub` / `stp x29,x30,[sp,#-n]!; mov x29,sp`
    FramePointer,
    /// x86-64: `push*; sub rsp` without frame pointer; aarch64: `sub sp; stp x29,x30,[sp,#k]; add x29,sp,#k`
    Frameless,
    /// No stack use at all.
    Leaf,
}

#[derive(Clone, Debug)]
pub struct Func {
    pub shape: Shape,
    /// The outermost function: its CFI declares the return address undefined, it never returns.
    pub is_root: bool,
    /// Offset of the function in the text section.
    pub start: u64,
    pub insns: Vec<Insn>,
    /// Row in force *before* executing instruction `i` (index `insns.len()` = after the last).
    pub rows: Vec<RowSpec>,
    /// Indices of call instructions.
    pub calls: Vec<usize>,
    /// aarch64: the function signs its return address.
    pub pac: bool,
    /// x86-64 frameless: saves rbp with a push (and clobbers it in the body).
    pub saves_fp: bool,
}

impl Func {
    /// x86-64 frameless function that saves rbp in a slot more than 32767 * 8 bytes above the
    /// body's stack pointer: framehop's rule `OffsetSpAndRestoreBp` stores that offset in an
    /// `i16` field (known finding F26: the compact-unwind path gives up on such a function and
    /// falls back to the frame pointer rule).
    pub fn x64_rbp_slot_beyond_rule_field(&self) -> bool {
        if self.shape != Shape::Frameless {
            return false;
        }
        let mut after_fp: Option<u64> = None;
        for i in &self.insns {
            match i.eff {
                Eff::PushFp => after_fp = Some(0),
                Eff::PushOther => {
                    if let Some(n) = after_fp.as_mut() {
                        *n += 8;
                    }
                }
                Eff::SubSp(n) => {
                    if let Some(m) = after_fp.as_mut() {
                        *m += n;
                    }
                }
                Eff::None | Eff::Call | Eff::ClobberFp(_) => break,
                _ => {}
            }
        }
        after_fp.map_or(false, |n| n / 8 > 32767)
    }

    pub fn len(&self) -> u64 {
        self.insns.iter().map(|i| i.bytes.len() as u64).sum()
    }
    pub fn offset_of(&self, idx: usize) -> u64 {
        self.insns[..idx].iter().map(|i| i.bytes.len() as u64).sum()
    }
    pub fn bytes(&self) -> Vec<u8> {
        self.insns.iter().flat_map(|i| i.bytes.clone()).collect()
    }
    /// FDE rows `(offset, row)`, consecutive equal rows merged.
    pub fn fde_rows(&self) -> Vec<(u64, RowSpec)> {
        let mut out: Vec<(u64, RowSpec)> = Vec::new();
        for i in 0..self.insns.len() {
            let off = self.offset_of(i);
            if out.last().map(|l| l.1 != self.rows[i]).unwrap_or(true) {
                out.push((off, self.rows[i]));
            }
        }
        out
    }
}

fn x64_sub(n: u64) -> Vec<u8> {
    if n < 128 {
        vec![0x48, 0x83, 0xec, n as u8]
    } else {
        let mut v = vec![0x48, 0x81, 0xec];
        v.extend_from_slice(&(n as u32).to_le_bytes());
        v
    }
}

fn x64_add(n: u64) -> Vec<u8> {
    if n < 128 {
        vec![0x48, 0x83, 0xc4, n as u8]
    } else {
        let mut v = vec![0x48, 0x81, 0xc4];
        v.extend_from_slice(&(n as u32).to_le_bytes());
        v
    }
}

fn body(p: &mut Prng, arch: Arch) -> Insn {
    let bytes = match arch {
        // instructions that are neither push/pop/sub/ret/jmp-like at their first byte
        Arch::X64 => p
            .pick(&[
                vec![0x90u8],
                vec![0x48, 0x89, 0xc3],
                vec![0x48, 0x8b, 0x07],
                vec![0x31, 0xc0],
                vec![0x48, 0x01, 0xd8],
            ])
            .clone(),
        Arch::A64 => p
            .pick(&[
                0xd503201fu32, // nop
                0xaa0403f4,    // mov x20, x4
                0xf9400260,    // ldr x0, [x19]
                0x8b010000,    // add x0, x0, x1
            ])
            .to_le_bytes()
            .to_vec(),
    };
    Insn { bytes, eff: Eff::None }
}

fn call_insn(arch: Arch) -> Insn {
    match arch {
        Arch::X64 => Insn { bytes: vec![0xe8, 0x10, 0x00, 0x00, 0x00], eff: Eff::Call },
        Arch::A64 => Insn { bytes: 0x9400_0010u32.to_le_bytes().to_vec(), eff: Eff::Call },
    }
}

fn a64(word: u32, eff: Eff) -> Insn {
    Insn { bytes: word.to_le_bytes().to_vec(), eff }
}

fn imm7(v: i64) -> u32 {
    ((v / 8) as u32) & 0x7f
}

/// Generates one function of the given shape. `n_calls` call sites are placed in the body;
/// `tail_call_last` makes the very last instruction a call (a call to a noreturn function).
pub fn gen_func(
    p: &mut Prng,
    arch: Arch,
    shape: Shape,
    is_root: bool,
    start: u64,
    n_calls: usize,
    call_last: bool,
) -> Func {
    let mut insns: Vec<Insn> = Vec::new();
    let mut pac = false;
    let mut saves_fp = false;
    let n_push = p.below(4) as usize;
    let alloc = match p.below(8) {
        0 => 0,
        1 => 8 * (1 + p.below(6)),
        2 => 0x100 + 16 * p.below(8),
        // x86-64: frames of 64 KiB - 512 KiB, around the limits of the 16-bit rule fields
        // (stack size / 8 and offset / 8 must fit a u16: 0x7fff8 bytes)
        // x86-64: around the largest frame a frameless-immediate compact-unwind opcode can state
        // (stack size / 8 <= 255)
        4 if arch == Arch::X64 => 0x780 + 8 * p.below(24),
        3 if arch == Arch::X64 => *p.pick(&[0xffc0u64, 0xffe0, 0x10000, 0x10010, 0x3fff0, 0x40000, 0x7ffa0, 0x7ffc0, 0x7ffe0, 0x80000, 0x80010]) + 8 * p.below(4),
        _ => 16 * (1 + p.below(7)),
    };
    let mut epilogue: Vec<Insn> = Vec::new();
    match (arch, shape) {
        (Arch::A64, Shape::Leaf) => {
            // arm64 frameless functions (lr never saved) may still have locals: `sub sp, sp, #n`
            // or, for multiples of 4096, `sub sp, sp, #k, lsl #12`, or both
            if p.chance(1, 2) {
                let big = if p.chance(1, 2) { 1 + p.below(15) } else { 0 };
                let lim = if p.chance(1, 4) { 254 } else { 12 };
                let small = if big == 0 || p.chance(1, 3) { 16 * (1 + p.below(lim)) } else { 0 };
                if big > 0 {
                    insns.push(a64(0xd140_03ff | ((big as u32) << 10), Eff::SubSp(big << 12)));
                }
                if small > 0 {
                    insns.push(a64(0xd100_03ff | ((small as u32) << 10), Eff::SubSp(small)));
                    epilogue.push(a64(0x9100_03ff | ((small as u32) << 10), Eff::AddSp(small)));
                }
                if big > 0 {
                    epilogue.push(a64(0x9140_03ff | ((big as u32) << 10), Eff::AddSp(big << 12)));
                }
            }
        }
        (_, Shape::Leaf) => {}
        (Arch::X64, Shape::FramePointer) => {
            insns.push(Insn { bytes: vec![0x55], eff: Eff::PushFp });
            insns.push(Insn { bytes: vec![0x48, 0x89, 0xe5], eff: Eff::MovFpSp });
            for i in 0..n_push {
                insns.push(Insn { bytes: X64_SAVED[i].1.to_vec(), eff: Eff::PushOther });
            }
            if alloc > 0 {
                insns.push(Insn { bytes: x64_sub(alloc), eff: Eff::SubSp(alloc) });
                epilogue.push(Insn { bytes: x64_add(alloc), eff: Eff::AddSp(alloc) });
            }
            for i in (0..n_push).rev() {
                epilogue.push(Insn { bytes: X64_SAVED[i].2.to_vec(), eff: Eff::PopOther });
            }
            epilogue.push(Insn { bytes: vec![0x5d], eff: Eff::PopFp });
        }
        (Arch::X64, Shape::Frameless) => {
            saves_fp = p.chance(1, 3);
            // rbp is pushed like any other callee-saved register, at any position
            let fp_at = if saves_fp { p.below(n_push as u64 + 1) as usize } else { usize::MAX };
            let mut order: Vec<Option<usize>> = (0..n_push).map(Some).collect();
            if saves_fp {
                order.insert(fp_at, None);
            }
            for r in &order {
                match r {
                    None => insns.push(Insn { bytes: vec![0x55], eff: Eff::PushFp }),
                    Some(i) => insns.push(Insn { bytes: X64_SAVED[*i].1.to_vec(), eff: Eff::PushOther }),
                }
            }
            // keep the stack 16-byte aligned at calls like a compiler would, roughly
            let alloc = if alloc == 0 && n_push == 0 && !saves_fp { 8 } else { alloc };
            if alloc > 0 {
                insns.push(Insn { bytes: x64_sub(alloc), eff: Eff::SubSp(alloc) });
                epilogue.push(Insn { bytes: x64_add(alloc), eff: Eff::AddSp(alloc) });
            }
            for r in order.iter().rev() {
                match r {
                    None => epilogue.push(Insn { bytes: vec![0x5d], eff: Eff::PopFp }),
                    Some(i) => epilogue.push(Insn { bytes: X64_SAVED[*i].2.to_vec(), eff: Eff::PopOther }),
                }
            }
        }
        (Arch::A64, Shape::FramePointer) => {
            pac = p.chance(1, 3);
            if pac {
                insns.push(a64(0xd503233f, Eff::Sign)); // paciasp
            }
            let n = if p.chance(1, 4) { 16 * (9 + p.below(22)) } else { 16 * (1 + p.below(8)) };
            insns.push(a64(0xa980_0000 | (imm7(-(n as i64)) << 15) | (30 << 10) | (31 << 5) | 29, Eff::StpFpLrPre(n)));
            insns.push(a64(0x9100_03fd, Eff::AddFpSp(0))); // mov x29, sp
            // large or variable frames: the locals are allocated after the frame record is set up
            if p.chance(1, 3) {
                let big = p.chance(1, 4);
                let locals = 16 * (1 + p.below(if big { 255 } else { 12 }));
                insns.push(a64(0xd100_03ff | ((locals as u32) << 10), Eff::SubSp(locals)));
                epilogue.push(a64(0x9100_03ff | ((locals as u32) << 10), Eff::AddSp(locals)));
            }
            epilogue.push(a64(0xa8c0_0000 | (imm7(n as i64) << 15) | (30 << 10) | (31 << 5) | 29, Eff::LdpFpLrPost(n)));
            if pac {
                epilogue.push(a64(0xd50323bf, Eff::Auth)); // autiasp
            }
        }
        (Arch::A64, Shape::Frameless) => {
            // `sub sp; stp x29,x30,[sp,#k]; add x29,sp,#k` (frame record at the top of the frame)
            pac = p.chance(1, 4);
            if pac {
                insns.push(a64(0xd503233f, Eff::Sign));
            }
            // record offsets on both sides of 0x100 (imm7 values on both sides of 32)
            let n = if p.chance(1, 3) { 0x110 + 16 * p.below(15) } else { 32 + 16 * p.below(12) };
            let k = n - 16;
            insns.push(a64(0xd100_03ff | ((n as u32) << 10), Eff::SubSp(n)));
            insns.push(a64(0xa900_0000 | (imm7(k as i64) << 15) | (30 << 10) | (31 << 5) | 29, Eff::StpFpLrOff(k)));
            insns.push(a64(0x9100_03fd | ((k as u32) << 10), Eff::AddFpSp(k)));
            epilogue.push(a64(0xa940_0000 | (imm7(k as i64) << 15) | (30 << 10) | (31 << 5) | 29, Eff::LdpFpLrOff(k)));
            epilogue.push(a64(0x9100_03ff | ((n as u32) << 10), Eff::AddSp(n)));
            if pac {
                epilogue.push(a64(0xd50323bf, Eff::Auth));
            }
        }
    }
    // body
    let mut calls = Vec::new();
    let n_body = 2 + p.below(4) as usize;
    let mut clobbered = false;
    for i in 0..n_body.max(n_calls) {
        insns.push(body(p, arch));
        if saves_fp && !clobbered && arch == Arch::X64 {
            // mov rbp, imm-like garbage (encoded as a plain body instruction)
            insns.push(Insn { bytes: vec![0x48, 0x89, 0xc5], eff: Eff::ClobberFp(0x1111_0000 + p.below(0x1000)) });
            clobbered = true;
        }
        if i < n_calls {
            calls.push(insns.len());
            insns.push(call_insn(arch));
        }
    }
    if !call_last {
        insns.push(body(p, arch));
        if !is_root {
            // a quarter of the functions end in a tail call instead of a return. framehop
            // recognises a tail call by what precedes the jump (x86-64: a pop or `add rsp`; arm64: an
            // instruction that adjusts sp), so only those shapes are generated; a signed return
            // address is authenticated by `retab`, never left signed across a plain `b`.
            let last_is_pop = matches!(epilogue.last().map(|i| &i.eff), Some(Eff::PopOther) | Some(Eff::PopFp) | Some(Eff::AddSp(_)));
            let last_adjusts_sp = matches!(epilogue.last().map(|i| &i.eff), Some(Eff::LdpFpLrPost(_)) | Some(Eff::AddSp(_)));
            let tail = p.chance(1, 4)
                && match arch {
                    Arch::X64 => last_is_pop,
                    Arch::A64 => !pac && last_adjusts_sp,
                };
            insns.extend(epilogue);
            insns.push(match (arch, tail) {
                (Arch::X64, false) => Insn { bytes: vec![0xc3], eff: Eff::Ret },
                (Arch::A64, false) => a64(0xd65f03c0, Eff::Ret),
                (Arch::X64, true) => Insn {
                    bytes: p.pick(&[vec![0xe9u8, 0x40, 0x01, 0x00, 0x00], vec![0xeb, 0x40], vec![0xff, 0xe0]]).clone(),
                    eff: Eff::Ret,
                },
                // `b target` / `br x16`
                (Arch::A64, true) => a64(*p.pick(&[0x1400_0040u32, 0xd61f_0200]), Eff::Ret),
            });
        } else {
            // the root never returns: it ends in a call (exit)
            calls.push(insns.len());
            insns.push(call_insn(arch));
        }
    } else if calls.last() != Some(&(insns.len() - 1)) {
        calls.push(insns.len());
        insns.push(call_insn(arch));
    }
    let mut f = Func { shape, is_root, start, insns, rows: Vec::new(), calls, pac, saves_fp };
    f.rows = compute_rows(arch, &f);
    f
}

/// The CFI rows a compiler emits for the function: the row in force before each instruction.
pub fn compute_rows(arch: Arch, f: &Func) -> Vec<RowSpec> {
    let mut rows = Vec::new();
    match arch {
        Arch::X64 => {
            // CFA tracking
            let mut cfa_reg = DReg::Sp;
            let mut cfa_off: i64 = 8;
            let mut fp_rule = RR::Same;
            let ra_rule = if f.is_root { RR::Undef } else { RR::Offset(-8) };
            for ins in &f.insns {
                rows.push(RowSpec { cfa: Cfa::RegOff(cfa_reg, cfa_off), fp: fp_rule, ra: ra_rule });
                match ins.eff {
                    Eff::PushFp => {
                        if cfa_reg == DReg::Sp {
                            cfa_off += 8;
                        }
                        fp_rule = RR::Offset(-cfa_off);
                    }
                    Eff::MovFpSp => {
                        cfa_reg = DReg::Fp;
                    }
                    Eff::PushOther => {
                        if cfa_reg == DReg::Sp {
                            cfa_off += 8;
                        }
                    }
                    Eff::SubSp(n) => {
                        if cfa_reg == DReg::Sp {
                            cfa_off += n as i64;
                        }
                    }
                    Eff::AddSp(n) => {
                        if cfa_reg == DReg::Sp {
                            cfa_off -= n as i64;
                        }
                    }
                    Eff::PopOther => {
                        if cfa_reg == DReg::Sp {
                            cfa_off -= 8;
                        }
                    }
                    Eff::PopFp => {
                        if cfa_reg == DReg::Fp {
                            cfa_reg = DReg::Sp;
                            cfa_off = 8;
                        } else {
                            cfa_off -= 8;
                        }
                        fp_rule = RR::Same;
                    }
                    _ => {}
                }
            }
            rows.push(RowSpec { cfa: Cfa::RegOff(cfa_reg, cfa_off), fp: fp_rule, ra: ra_rule });
        }
        Arch::A64 => {
            let mut cfa_reg = DReg::Sp;
            let mut cfa_off: i64 = 0;
            let mut fp_rule = RR::Same;
            let mut ra_rule = if f.is_root { RR::Undef } else { RR::Same };
            for ins in &f.insns {
                rows.push(RowSpec { cfa: Cfa::RegOff(cfa_reg, cfa_off), fp: fp_rule, ra: ra_rule });
                match ins.eff {
                    Eff::StpFpLrPre(n) => {
                        cfa_off += n as i64;
                        fp_rule = RR::Offset(-cfa_off);
                        if !f.is_root {
                            ra_rule = RR::Offset(-cfa_off + 8);
                        }
                    }
                    Eff::SubSp(n) => {
                        if cfa_reg == DReg::Sp {
                            cfa_off += n as i64
                        }
                    }
                    Eff::StpFpLrOff(k) => {
                        fp_rule = RR::Offset(-cfa_off + k as i64);
                        if !f.is_root {
                            ra_rule = RR::Offset(-cfa_off + k as i64 + 8);
                        }
                    }
                    Eff::AddFpSp(k) => {
                        // switch to a frame pointer based CFA, as clang does
                        cfa_reg = DReg::Fp;
                        cfa_off -= k as i64;
                    }
                    Eff::LdpFpLrPost(n) => {
                        // after restoring fp the CFA must be sp-based again
                        cfa_reg = DReg::Sp;
                        cfa_off = 0;
                        let _ = n;
                        fp_rule = RR::Same;
                        if !f.is_root {
                            ra_rule = RR::Same;
                        }
                    }
                    Eff::LdpFpLrOff(k) => {
                        // fp restored: CFA back to sp + frame size (k + 16)
                        cfa_reg = DReg::Sp;
                        cfa_off = k as i64 + 16;
                        fp_rule = RR::Same;
                        if !f.is_root {
                            ra_rule = RR::Same;
                        }
                    }
                    Eff::AddSp(n) => {
                        if cfa_reg == DReg::Sp {
                            cfa_off -= n as i64
                        }
                    }
                    _ => {}
                }
            }
            rows.push(RowSpec { cfa: Cfa::RegOff(cfa_reg, cfa_off), fp: fp_rule, ra: ra_rule });
        }
    }
    rows
}

/// Machine state relevant to unwinding.
#[derive(Clone, Debug, PartialEq)]
pub struct Mach {
    pub sp: u64,
    pub fp: u64,
    /// aarch64 only.
    pub lr: u64,
}

/// One frame of the true chain.
#[derive(Clone, Debug)]
pub struct TrueFrame {
    pub func: usize,
    /// Address (avma) the frame is stopped at: the interruption pc for the innermost frame,
    /// the return address for the others.
    pub addr: u64,
    /// sp / fp (and lr) the thread has in this frame at that point.
    pub mach: Mach,
}

pub struct Truth {
    /// Innermost first.
    pub frames: Vec<TrueFrame>,
    /// Stack contents (address, value).
    pub stack: Vec<(u64, u64)>,
    pub stack_top: u64,
}

/// Bits a signing instruction sets in a return address (outside the 40-bit mask).
pub const SIGN_BITS: u64 = 0x00b5_0000_0000_0000;

/// Runs the chain `chain[0]` (root) calls `chain[1]` calls ... and stops the innermost
/// function before its instruction `stop_idx`. `text_avma` is where the text section is mapped.
pub fn simulate(
    arch: Arch,
    funcs: &[Func],
    chain: &[(usize, usize)], // (function index, index into its `calls`) for all but the last; last: (function, stop_idx)
    text_avma: u64,
    stack_top: u64,
    garbage: &mut Prng,
) -> Truth {
    let mut mem: std::collections::BTreeMap<u64, u64> = std::collections::BTreeMap::new();
    let mut m = Mach { sp: stack_top, fp: 0, lr: 0 };
    let mut frames: Vec<TrueFrame> = Vec::new();
    // x86-64: the root was "called" by nobody; leave a garbage word where a return address would be
    if arch == Arch::X64 {
        m.sp -= 8;
        mem.insert(m.sp, 0);
    }
    for (depth, (fi, sel)) in chain.iter().enumerate() {
        let f = &funcs[*fi];
        let innermost = depth + 1 == chain.len();
        let stop = if innermost { *sel } else { f.calls[*sel] };
        let mut fp_val = m.fp;
        let mut sp = m.sp;
        let mut lr = m.lr;
        for ins in &f.insns[..stop] {
            match ins.eff {
                Eff::None | Eff::Ret => {}
                Eff::Call => {} // calls executed earlier in this function returned
                Eff::PushFp => {
                    sp -= 8;
                    mem.insert(sp, fp_val);
                }
                Eff::MovFpSp => fp_val = sp,
                Eff::PushOther => {
                    sp -= 8;
                    mem.insert(sp, 0x7777_0000 + garbage.below(0x1000));
                }
                Eff::SubSp(n) => sp -= n,
                Eff::AddSp(n) => sp += n,
                Eff::PopOther => sp += 8,
                Eff::PopFp => {
                    fp_val = *mem.get(&sp).unwrap_or(&0);
                    sp += 8;
                }
                Eff::ClobberFp(v) => fp_val = v,
                Eff::StpFpLrPre(n) => {
                    sp -= n;
                    mem.insert(sp, fp_val);
                    mem.insert(sp + 8, lr);
                }
                Eff::StpFpLrOff(k) => {
                    mem.insert(sp + k, fp_val);
                    mem.insert(sp + k + 8, lr);
                }
                Eff::AddFpSp(k) => fp_val = sp + k,
                Eff::LdpFpLrPost(n) => {
                    fp_val = *mem.get(&sp).unwrap_or(&0);
                    lr = *mem.get(&(sp + 8)).unwrap_or(&0);
                    sp += n;
                }
                Eff::LdpFpLrOff(k) => {
                    fp_val = *mem.get(&(sp + k)).unwrap_or(&0);
                    lr = *mem.get(&(sp + k + 8)).unwrap_or(&0);
                }
                Eff::Sign => lr |= SIGN_BITS,
                Eff::Auth => lr &= !SIGN_BITS,
            }
        }
        let here = Mach { sp, fp: fp_val, lr };
        if innermost {
            frames.push(TrueFrame { func: *fi, addr: text_avma + f.start + f.offset_of(stop), mach: here });
        } else {
            // perform the call
            let ra = text_avma + f.start + f.offset_of(stop) + f.insns[stop].bytes.len() as u64;
            frames.push(TrueFrame { func: *fi, addr: ra, mach: here.clone() });
            match arch {
                Arch::X64 => {
                    m = Mach { sp: sp - 8, fp: fp_val, lr: 0 };
                    mem.insert(m.sp, ra);
                }
                Arch::A64 => {
                    m = Mach { sp, fp: fp_val, lr: ra };
                }
            }
        }
    }
    frames.reverse();
    Truth { frames, stack: mem.into_iter().collect(), stack_top }
}
