//! Engine `thr`: 16 threads create and modify unwinders concurrently; every generation
//! drawn (read through the hook) must be distinct while fewer than 65 536 are drawn, and the
//! multiset of drawn values must be the contiguous run the model predicts (`drawSeq`).
//! Also checks the syntactic shape of the generation counter update in the source.
use crate::spec::*;
use crate::util::*;
use crate::world::{build_module, Bytes};
use framehop::x86_64::UnwinderX86_64;
use framehop::{MayAllocateDuringUnwind, Unwinder};

fn shape_check(rep: &mut Report) {
    // The C18 theorems assume that a draw is ONE atomic read-modify-write of a 16-bit counter
    // (no test can establish atomicity). Accepted shapes of the only writer of the counter, where
    // ever it lives in src/unwinder.rs: `fetch_add(1, <ordering>)` and
    // `fetch_update(<ordering>, <ordering>, |x| Some(x.wrapping_add(1)))`; any number of plain
    // `load`s (the hooks peek); nothing else (store, swap, compare_exchange, fetch_sub, ...).
    let src = std::fs::read_to_string("/repo/src/unwinder.rs").unwrap_or_default();
    let flat: String = src.split_whitespace().collect::<Vec<_>>().join("");
    let name = "GLOBAL_MODULES_GENERATION";
    let mut rmw = 0usize;
    let mut other = Vec::new();
    for (i, _) in flat.match_indices(name) {
        let rest = &flat[i + name.len()..];
        let rest = &rest[..rest.len().min(120)];
        if rest.starts_with(":AtomicU16=AtomicU16::new(") || rest.starts_with(".load(Ordering::") {
            continue;
        }
        if rest.starts_with(".fetch_add(1,Ordering::") {
            rmw += 1;
            continue;
        }
        if let Some(r) = rest.strip_prefix(".fetch_update(Ordering::") {
            // Ordering::A,Ordering::B,|x|Some(x.wrapping_add(1))
            let mut it = r.splitn(3, ',');
            let (_o1, o2, clo) = (it.next().unwrap_or(""), it.next().unwrap_or(""), it.next().unwrap_or(""));
            let clo_ok = clo.strip_prefix('|').and_then(|c| c.split_once('|')).map_or(false, |(v, body)| {
                !v.is_empty() && v.chars().all(|ch| ch.is_alphanumeric() || ch == '_') && body.starts_with(&format!("Some({v}.wrapping_add(1))"))
            });
            if o2.starts_with("Ordering::") && clo_ok {
                rmw += 1;
                continue;
            }
        }
        other.push(rest[..rest.len().min(60)].to_string());
    }
    let ok = rmw == 1 && other.is_empty() && flat.contains("staticGLOBAL_MODULES_GENERATION:AtomicU16");
    let body = format!("atomic read-modify-write sites={rmw} other uses={other:?}");
    rep.notes.push(format!("generation counter update shape: `{body}` ok={ok}"));
    if !ok {
        rep.add_finding(Finding {
            props: vec!["C18".into()],
            kind: "correspondence".into(),
            key: "generation-update-shape".into(),
            what: "the global generation counter is no longer an AtomicU16 written by exactly one atomic read-modify-write (fetch_add(1) / fetch_update(+1)) - the atomicity assumption of the C18 theorems is stated for that shape".into(),
            case: body,
            impl_out: String::new(),
            model_out: "GLOBAL_MODULES_GENERATION.fetch_add(1, Ordering::Relaxed)".into(),
        });
    }
}

pub fn run(tier: &str, seed: u64) -> Report {
    let mut rep = Report::new("thr");
    shape_check(&mut rep);
    let rounds = if tier == "thorough" { 20000 } else { 400 };
    let threads = 16usize;
    let per_thread = 250usize; // 16 * 250 * (<= 1 draw) < 65536
    let m0 = ModSpec {
        start: 0x1000,
        end: 0x2000,
        base_avma: 0x1000,
        base_svma: 0,
        data: DataSpec::None,
        enc: PtrEnc::Abs8,
        hdr_abs: true,
        dbg_version: 4,
        n_cies: 1,
    };
    let module = build_module(Arch::X64, "m", &m0);
    for round in 0..rounds {
        let c0 = framehop::verif_hooks::peek_global_modules_generation();
        let barrier = std::sync::Barrier::new(threads);
        let mut all: Vec<(usize, u16)> = Vec::new();
        std::thread::scope(|s| {
            let mut hs = Vec::new();
            for t in 0..threads {
                let module = module.clone();
                let barrier = &barrier;
                hs.push(s.spawn(move || {
                    let mut p = Prng::new(seed ^ ((round as u64) << 20) ^ t as u64);
                    let mut gens = Vec::new();
                    barrier.wait();
                    let mut u: UnwinderX86_64<Bytes, MayAllocateDuringUnwind> = UnwinderX86_64::new();
                    gens.push(u.verif_modules_generation());
                    let mut has = false;
                    for _ in 0..per_thread - 1 {
                        match p.below(3) {
                            0 => {
                                u = UnwinderX86_64::new();
                                has = false;
                                gens.push(u.verif_modules_generation());
                            }
                            1 => {
                                if !has {
                                    u.add_module(module.clone());
                                    has = true;
                                    gens.push(u.verif_modules_generation());
                                }
                            }
                            _ => {
                                let before = u.verif_modules_generation();
                                u.remove_module(0x1000);
                                let after = u.verif_modules_generation();
                                if has {
                                    gens.push(after);
                                } else if after != before {
                                    gens.push(after);
                                }
                                has = false;
                            }
                        }
                    }
                    gens
                }));
            }
            for (t, h) in hs.into_iter().enumerate() {
                for g in h.join().unwrap() {
                    all.push((t, g));
                }
            }
        });
        rep.cases += all.len() as u64;
        rep.note_distinct(&format!("round {round} c0 {c0} n {}", all.len()));
        // distinct
        let mut sorted: Vec<u16> = all.iter().map(|x| x.1).collect();
        sorted.sort();
        let dup = sorted.windows(2).find(|w| w[0] == w[1]).map(|w| w[0]);
        if let Some(g) = dup {
            rep.add_finding(Finding {
                props: vec!["C18".into()],
                kind: "oracle".into(),
                key: "concurrent-generation-drawn-twice".into(),
                what: format!("generation {g} handed out twice among {} concurrent draws", all.len()),
                case: format!("round={round} threads={threads} seed={seed} c0={c0}"),
                impl_out: format!("{:?}", all.iter().filter(|x| x.1 == g).collect::<Vec<_>>()),
                model_out: String::new(),
            });
        }
        // model prediction: the drawn values are exactly c0, c0+1, ..., c0+n-1 (mod 2^16)
        let n = all.len();
        let mut expect: Vec<u16> = (0..n).map(|k| c0.wrapping_add(k as u16)).collect();
        expect.sort();
        rep.compared_with_model += 1;
        if expect != sorted && dup.is_none() {
            rep.add_finding(Finding {
                props: vec!["C18".into()],
                kind: "correspondence".into(),
                key: "concurrent-draws-not-contiguous".into(),
                what: "the multiset of generations drawn concurrently is not the run predicted by drawSeq".into(),
                case: format!("round={round} threads={threads} seed={seed} c0={c0} n={n}"),
                impl_out: format!("min={:?} max={:?}", sorted.first(), sorted.last()),
                model_out: format!("min={:?} max={:?}", expect.first(), expect.last()),
            });
        }
        if round == 0 {
            rep.sample(format!("round 0: {threads} threads, {} draws starting at counter {c0}, all distinct={}", n, dup.is_none()));
        }
        rep.count("concurrent round");
    }
    rep
}
