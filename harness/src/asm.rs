//! Engine `asm`: who checks the ground truth. The synthesized programs (`prog.rs`, `pe.rs`)
//! carry, for every instruction, hand-encoded bytes and the effect on sp / fp / lr that the
//! simulator applies. Here every distinct (bytes, effect) pair the generators produce is
//! disassembled by LLVM (`llvm-mc --disassemble`, x86-64 and AArch64 incl. pointer
//! authentication) and the printed instruction is compared with the claimed effect: the bytes
//! really are the instruction the simulator believes them to be, decoded by an implementation
//! that is independent of both framehop and this harness.
use crate::pe::{gen_pe_func, PeEff};
use crate::prog::*;
use crate::spec::Arch;
use crate::util::*;
use std::collections::BTreeSet;
use std::io::Write;
use std::process::{Command, Stdio};

fn llvm_mc() -> Option<&'static str> {
    for c in ["llvm-mc-14", "llvm-mc"] {
        if Command::new(c).arg("--version").stdout(Stdio::null()).stderr(Stdio::null()).status().map(|s| s.success()).unwrap_or(false) {
            return Some(c);
        }
    }
    None
}

/// Disassembles each byte string separately; returns one text per input (`None` if LLVM does
/// not decode it as exactly one instruction).
fn disassemble(mc: &str, arch: Arch, items: &[Vec<u8>]) -> Vec<Option<String>> {
    let mut out = Vec::new();
    // one process per chunk; a marker instruction between items keeps them apart
    for chunk in items.chunks(400) {
        let mut input = String::new();
        for b in chunk {
            input.push_str(&b.iter().map(|x| format!("0x{x:02x}")).collect::<Vec<_>>().join(" "));
            input.push('\n');
            // separator: `hlt` / `brk #0x3e7`
            input.push_str(match arch {
                Arch::X64 => "0xf4\n",
                Arch::A64 => "0xe0 0x7c 0x20 0xd4\n",
            });
        }
        let triple = match arch {
            Arch::X64 => "-triple=x86_64",
            Arch::A64 => "-triple=aarch64",
        };
        let mut cmd = Command::new(mc);
        cmd.arg("--disassemble").arg(triple);
        if arch == Arch::A64 {
            cmd.arg("-mattr=+pauth");
        }
        let mut child = cmd.stdin(Stdio::piped()).stdout(Stdio::piped()).stderr(Stdio::null()).spawn().expect("llvm-mc");
        child.stdin.take().unwrap().write_all(input.as_bytes()).unwrap();
        let o = child.wait_with_output().expect("llvm-mc");
        let text = String::from_utf8_lossy(&o.stdout);
        let lines: Vec<String> = text
            .lines()
            .map(|l| {
                // strip the trailing comment (`# ...` on x86, `// ...` on AArch64)
                let code = match arch {
                    Arch::X64 => l.split(" #").next().unwrap_or(""),
                    Arch::A64 => l.split("//").next().unwrap_or(""),
                };
                code.split_whitespace().collect::<Vec<_>>().join(" ")
            })
            .filter(|l| !l.is_empty() && !l.starts_with('.'))
            .collect();
        let sep = match arch {
            Arch::X64 => "hlt",
            Arch::A64 => "brk #0x3e7",
        };
        let mut cur: Vec<String> = Vec::new();
        let mut groups: Vec<Vec<String>> = Vec::new();
        for l in lines {
            if l == sep {
                groups.push(std::mem::take(&mut cur));
            } else {
                cur.push(l);
            }
        }
        for (i, _) in chunk.iter().enumerate() {
            match groups.get(i) {
                Some(g) if g.len() == 1 => out.push(Some(g[0].clone())),
                _ => out.push(None),
            }
        }
    }
    out
}

fn num(s: &str) -> Option<i64> {
    let s = s.trim().trim_start_matches(['$', '#']);
    if let Some(h) = s.strip_prefix("0x") {
        i64::from_str_radix(h, 16).ok()
    } else if let Some(h) = s.strip_prefix("-0x") {
        i64::from_str_radix(h, 16).ok().map(|v| -v)
    } else {
        s.parse().ok()
    }
}

/// Does the disassembly say what the simulator's effect says?
fn agrees(arch: Arch, eff: &Eff, text: &str) -> bool {
    let t = text;
    let touches = |regs: &[&str]| regs.iter().any(|r| t.contains(r));
    match (arch, eff) {
        (Arch::X64, Eff::PushFp) => t == "pushq %rbp",
        (Arch::X64, Eff::MovFpSp) => t == "movq %rsp, %rbp",
        (Arch::X64, Eff::PushOther) => t.starts_with("pushq %r") && t != "pushq %rbp" && t != "pushq %rsp",
        (Arch::X64, Eff::PopOther) => t.starts_with("popq %r") && t != "popq %rbp" && t != "popq %rsp",
        (Arch::X64, Eff::PopFp) => t == "popq %rbp",
        (Arch::X64, Eff::SubSp(n)) => t.strip_prefix("subq ").and_then(|r| r.strip_suffix(", %rsp")).and_then(num) == Some(*n as i64),
        (Arch::X64, Eff::AddSp(n)) => t.strip_prefix("addq ").and_then(|r| r.strip_suffix(", %rsp")).and_then(num) == Some(*n as i64),
        (Arch::X64, Eff::ClobberFp(_)) => t.starts_with("movq ") && t.ends_with(", %rbp") && !t.contains("%rsp"),
        (Arch::X64, Eff::Call) => t.starts_with("callq"),
        (Arch::X64, Eff::Ret) => t == "retq" || t.starts_with("jmp"),
        (Arch::X64, Eff::None) => !touches(&["%rsp", "%rbp", "%esp", "%ebp", "push", "pop", "call", "ret", "jmp", "leave", "enter"]),
        (Arch::A64, Eff::StpFpLrPre(n)) => t == format!("stp x29, x30, [sp, #-{n}]!"),
        (Arch::A64, Eff::StpFpLrOff(k)) => t == format!("stp x29, x30, [sp, #{k}]") || (*k == 0 && t == "stp x29, x30, [sp]"),
        (Arch::A64, Eff::AddFpSp(0)) => t == "mov x29, sp",
        (Arch::A64, Eff::AddFpSp(k)) => t == format!("add x29, sp, #{k}"),
        (Arch::A64, Eff::LdpFpLrPost(n)) => t == format!("ldp x29, x30, [sp], #{n}"),
        (Arch::A64, Eff::LdpFpLrOff(k)) => t == format!("ldp x29, x30, [sp, #{k}]") || (*k == 0 && t == "ldp x29, x30, [sp]"),
        (Arch::A64, Eff::SubSp(n)) => t == format!("sub sp, sp, #{n}") || sp_imm(t, "sub") == Some(*n),
        (Arch::A64, Eff::AddSp(n)) => t == format!("add sp, sp, #{n}") || sp_imm(t, "add") == Some(*n),
        (Arch::A64, Eff::Sign) => t == "paciasp" || t == "pacibsp",
        (Arch::A64, Eff::Auth) => t == "autiasp" || t == "autibsp",
        (Arch::A64, Eff::Call) => t.starts_with("bl "),
        (Arch::A64, Eff::Ret) => t == "ret" || t == "retab" || t == "retaa" || t.starts_with("b ") || t.starts_with("br "),
        (Arch::A64, Eff::None) => !touches(&["sp", "x29", "x30", "w29", "w30", "ret", "bl", "br ", "blr", "pac", "aut"]) && !t.starts_with("b "),
        _ => false,
    }
}

/// `sub sp, sp, #1, lsl #12` style immediates.
fn sp_imm(t: &str, op: &str) -> Option<u64> {
    let rest = t.strip_prefix(&format!("{op} sp, sp, #"))?;
    let mut parts = rest.split(", lsl #");
    let v = num(parts.next()?)? as u64;
    match parts.next() {
        Some(sh) => Some(v << num(sh)? as u32),
        None => Some(v),
    }
}

fn agrees_pe(eff: &PeEff, text: &str) -> bool {
    let t = text;
    let reg64 = ["%rax", "%rcx", "%rdx", "%rbx", "%rsp", "%rbp", "%rsi", "%rdi", "%r8", "%r9", "%r10", "%r11", "%r12", "%r13", "%r14", "%r15"];
    match eff {
        PeEff::Push(r) => t == format!("pushq {}", reg64[*r as usize]),
        PeEff::Pop(r) => t == format!("popq {}", reg64[*r as usize]),
        PeEff::Sub(n) => t.strip_prefix("subq ").and_then(|r| r.strip_suffix(", %rsp")).and_then(num) == Some(*n as i64),
        PeEff::Add(n) => t.strip_prefix("addq ").and_then(|r| r.strip_suffix(", %rsp")).and_then(num) == Some(*n as i64),
        PeEff::LeaFp(k) => t == format!("leaq {k}(%rsp), %rbp") || (*k == 0 && t == "leaq (%rsp), %rbp"),
        PeEff::LeaSp(x) => t == format!("leaq {x}(%rbp), %rsp") || (*x == 0 && t == "leaq (%rbp), %rsp"),
        PeEff::Save(r, o) => t == format!("movq {}, {o}(%rsp)", reg64[*r as usize]) || (*o == 0 && t == format!("movq {}, (%rsp)", reg64[*r as usize])),
        PeEff::Call => t.starts_with("callq"),
        PeEff::Ret => t == "retq",
        PeEff::None => !["%rsp", "%rbp", "push", "pop", "call", "ret", "jmp", "leave"].iter().any(|r| t.contains(r)),
    }
}

/// The instruction analysers against LLVM's decoding: one- to three-instruction texts whose
/// immediates sweep the whole field (imm7, imm12 with and without shift; every x86-64 push/pop
/// register), the rule the analyser derives vs. the rule implied by what LLVM says the
/// instructions are. Independent of this harness's encoders and of the Lean model.
fn decoder_probes(rep: &mut Report, mc: &str) {
    use crate::rules::{show_rule_a, show_rule_x};
    use framehop::verif_hooks as hooks;
    let w = |x: u32| x.to_le_bytes().to_vec();
    let imm_of = |t: &str| -> Option<i64> { t.rsplit('#').next().and_then(|x| num(x.trim_end_matches([']', '!']))) };
    // ---------------------------------------------------------------- aarch64
    let mov_fp_sp = 0x910003fdu32;
    let ret = 0xd65f03c0u32;
    // (words, pc, what LLVM must say for word 0 / 1, expectation builder)
    struct Probe {
        words: Vec<u32>,
        pc: usize,
        kind: &'static str,
    }
    let mut probes: Vec<Probe> = Vec::new();
    for imm7 in 0..128u32 {
        // stp x29, x30, [sp, #imm]! ; mov x29, sp        (pc at the mov)
        probes.push(Probe { words: vec![0xa9800000 | (imm7 << 15) | (30 << 10) | (31 << 5) | 29, mov_fp_sp], pc: 4, kind: "stp-pre" });
        // ldp x29, x30, [sp], #imm ; ret                  (pc at the ldp)
        probes.push(Probe { words: vec![0xa8c00000 | (imm7 << 15) | (30 << 10) | (31 << 5) | 29, ret], pc: 0, kind: "ldp-post" });
        // ldp x29, x30, [sp, #imm] ; add sp, sp, #0x200 ; ret   (pc at the ldp)
        probes.push(Probe { words: vec![0xa9400000 | (imm7 << 15) | (30 << 10) | (31 << 5) | 29, 0x910803ff, ret], pc: 0, kind: "ldp-off" });
    }
    for imm12 in (0..4096u32).step_by(7).chain([0xfff, 0x10, 0x800]) {
        for sh in [0u32, 1] {
            // sub sp, sp, #imm ; stp x29, x30, [sp, #16]   (pc at the stp)
            probes.push(Probe { words: vec![0xd10003ff | (sh << 22) | (imm12 << 10), 0xa9017bfd], pc: 4, kind: "sub-sp" });
            // add sp, sp, #imm ; ret                        (pc at the add)
            probes.push(Probe { words: vec![0x910003ff | (sh << 22) | (imm12 << 10), ret], pc: 0, kind: "add-sp" });
        }
    }
    let first_words: Vec<Vec<u8>> = probes.iter().map(|p| w(p.words[0])).collect();
    let texts = disassemble(mc, Arch::A64, &first_words);
    for (pr, text) in probes.iter().zip(texts.iter()) {
        let Some(t) = text else { continue };
        let Some(imm) = imm_of(t).or(if t.ends_with("[sp]") { Some(0) } else { None }) else { continue };
        let imm = if t.contains("lsl #12") {
            // `sub sp, sp, #1, lsl #12`
            t.split('#').nth(1).and_then(|x| num(x.trim_end_matches(", lsl "))).unwrap_or(0) << 12
        } else {
            imm
        };
        // what the instructions do, from LLVM's reading
        let expect: Option<String> = match pr.kind {
            "stp-pre" if t.starts_with("stp x29, x30, [sp, #-") && imm < 0 && imm % 16 == 0 => Some(format!("rule:2:{}", hex((-imm / 16) as u64))),
            "ldp-post" if t.starts_with("ldp x29, x30, [sp], #") && imm > 0 && imm % 16 == 0 => Some(format!("rule:5:{}:0:1", hex((imm / 16) as u64))),
            "ldp-off" if t.starts_with("ldp x29, x30, [sp") && imm >= 0 && imm + 16 <= 0x200 => Some(format!("rule:5:20:{}:{}", hex_i(imm / 8), hex_i(imm / 8 + 1))),
            "sub-sp" if t.starts_with("sub sp, sp, #") && imm > 0 && imm % 16 == 0 && imm / 16 < 65536 => Some(format!("rule:2:{}", hex((imm / 16) as u64))),
            "add-sp" if t.starts_with("add sp, sp, #") && imm > 0 && imm % 16 == 0 && imm / 16 < 65536 => Some(format!("rule:2:{}", hex((imm / 16) as u64))),
            _ => None,
        };
        let Some(expect) = expect else { continue };
        let bytes: Vec<u8> = pr.words.iter().flat_map(|x| x.to_le_bytes()).collect();
        let got = match catch(|| hooks::analyze_aarch64(&bytes, pr.pc)) {
            Ok(Some(r)) => format!("rule:{}", show_rule_a(&r)),
            Ok(None) => "none".into(),
            Err(_) => "panic".into(),
        };
        rep.cases += 1;
        rep.count(&format!("a64 analyser vs LLVM decoding: {}", pr.kind));
        if got != expect {
            rep.add_finding(Finding {
                props: vec!["C02".into()],
                kind: "oracle".into(),
                key: format!("a64-analysis-disagrees-with-llvm-decoding-{}", pr.kind),
                what: format!("LLVM reads the first instruction as `{t}`, which implies the rule {expect}"),
                case: format!("arch=a64 pc={} text={}", pr.pc, bytes.iter().map(|b| format!("{b:02x}")).collect::<String>()),
                impl_out: got,
                model_out: expect,
            });
        }
    }
    // ---------------------------------------------------------------- x86-64: every push / pop register
    let mut items: Vec<(Vec<u8>, bool)> = Vec::new(); // (bytes, is_push)
    for r in 0..8u8 {
        items.push((vec![0x50 + r], true));
        items.push((vec![0x41, 0x50 + r], true));
        items.push((vec![0x58 + r], false));
        items.push((vec![0x41, 0x58 + r], false));
    }
    let texts = disassemble(mc, Arch::X64, &items.iter().map(|x| x.0.clone()).collect::<Vec<_>>());
    for ((bytes, is_push), text) in items.iter().zip(texts.iter()) {
        let Some(t) = text else { continue };
        rep.cases += 1;
        if *is_push {
            if !t.starts_with("pushq %r") {
                continue;
            }
            // push r ; sub rsp, 0x20 | (pc after the push): one word above the return address
            let mut text_bytes = bytes.clone();
            text_bytes.extend_from_slice(&[0x48, 0x83, 0xec, 0x20, 0x90]);
            let got = match catch(|| hooks::analyze_x86_64(&text_bytes, bytes.len())) {
                Ok(Some(r)) => format!("rule:{}", show_rule_x(&r)),
                Ok(None) => "none".into(),
                Err(_) => "panic".into(),
            };
            rep.count("x64 analyser vs LLVM decoding: push");
            if got != "rule:3:2" {
                rep.add_finding(Finding {
                    props: vec!["C02".into()],
                    kind: "oracle".into(),
                    key: "x64-analysis-disagrees-with-llvm-decoding-push".into(),
                    what: format!("LLVM reads the first instruction as `{t}`: after it the return address is one word above rsp (OffsetSp 2)"),
                    case: format!("arch=x64 pc={} text={}", bytes.len(), text_bytes.iter().map(|b| format!("{b:02x}")).collect::<String>()),
                    impl_out: got,
                    model_out: "rule:3:2".into(),
                });
            }
        } else {
            if !t.starts_with("popq %r") {
                continue;
            }
            // | pop r ; ret   (pc at the pop): rbp restored from [rsp] iff the register is rbp
            let mut text_bytes = vec![0x90u8];
            text_bytes.extend_from_slice(bytes);
            text_bytes.push(0xc3);
            let got = match catch(|| hooks::analyze_x86_64(&text_bytes, 1)) {
                Ok(Some(r)) => format!("rule:{}", show_rule_x(&r)),
                Ok(None) => "none".into(),
                Err(_) => "panic".into(),
            };
            let expect = if t == "popq %rbp" { "rule:4:2:0" } else { "rule:3:2" };
            rep.count("x64 analyser vs LLVM decoding: pop");
            if got != expect {
                rep.add_finding(Finding {
                    props: vec!["C02".into()],
                    kind: "oracle".into(),
                    key: "x64-analysis-disagrees-with-llvm-decoding-pop".into(),
                    what: format!("LLVM reads the instruction at pc as `{t}` followed by `retq`"),
                    case: format!("arch=x64 pc=1 text={}", text_bytes.iter().map(|b| format!("{b:02x}")).collect::<String>()),
                    impl_out: got,
                    model_out: expect.into(),
                });
            }
        }
    }
}

pub fn run(tier: &str, seed: u64) -> Report {
    let mut rep = Report::new("asm");
    let Some(mc) = llvm_mc() else {
        rep.notes.push("llvm-mc not found: the generators' instruction encodings were not cross-checked".into());
        return rep;
    };
    decoder_probes(&mut rep, mc);
    let mut p = Prng::new(seed.wrapping_mul(0x1f83_d9ab_fb41_bd6b).wrapping_add(31));
    let n = if tier == "thorough" { 60000 } else { 6000 };
    for arch in [Arch::X64, Arch::A64] {
        let mut seen: BTreeSet<(Vec<u8>, String)> = BTreeSet::new();
        let mut items: Vec<(Vec<u8>, Eff)> = Vec::new();
        for i in 0..n {
            let shape = *p.pick(&[Shape::FramePointer, Shape::Frameless, Shape::Leaf]);
            let nc = p.below(3) as usize;
            let mut f = gen_func(&mut p, arch, shape, i % 7 == 0, 0, nc, i % 11 == 0);
            if i % 2 == 0 {
                crate::macho::macho_flavour_pub(&mut f);
            }
            for ins in f.insns {
                if seen.insert((ins.bytes.clone(), format!("{:?}", ins.eff))) {
                    items.push((ins.bytes, ins.eff));
                }
            }
        }
        let texts = disassemble(mc, arch, &items.iter().map(|x| x.0.clone()).collect::<Vec<_>>());
        for ((bytes, eff), text) in items.iter().zip(texts.iter()) {
            rep.cases += 1;
            rep.count(&format!("{} instruction encodings checked against LLVM", arch.name()));
            let ok = text.as_deref().map(|t| agrees(arch, eff, t)).unwrap_or(false);
            if !ok {
                rep.add_finding(Finding {
                    props: vec!["C01".into(), "C02".into(), "C04".into(), "C11".into(), "C12".into(), "C08".into()],
                    kind: "correspondence".into(),
                    key: format!("generator-encoding-{}", arch.name()),
                    what: "generator check: LLVM does not disassemble the bytes of a synthesized instruction to the instruction the simulator assumes (the ground truth would be wrong; this is a defect of the harness, not of framehop)".into(),
                    case: format!("arch={} bytes={} assumed effect={eff:?}", arch.name(), bytes.iter().map(|b| format!("{b:02x}")).collect::<String>()),
                    impl_out: text.clone().unwrap_or_else(|| "(not one instruction)".into()),
                    model_out: format!("{eff:?}"),
                });
            } else if rep.samples.len() < 12 {
                rep.sample(format!("{} {} = {} ({eff:?})", arch.name(), bytes.iter().map(|b| format!("{b:02x}")).collect::<String>(), text.clone().unwrap_or_default()));
            }
        }
    }
    // PE programs
    {
        let mut seen: BTreeSet<(Vec<u8>, String)> = BTreeSet::new();
        let mut items: Vec<(Vec<u8>, PeEff)> = Vec::new();
        for i in 0..n {
            let nc = p.below(3) as usize;
            let f = gen_pe_func(&mut p, 0x1000, nc, i % 7 == 0);
            for ins in f.insns {
                if seen.insert((ins.bytes.clone(), format!("{:?}", ins.eff))) {
                    items.push((ins.bytes, ins.eff));
                }
            }
        }
        let texts = disassemble(mc, Arch::X64, &items.iter().map(|x| x.0.clone()).collect::<Vec<_>>());
        for ((bytes, eff), text) in items.iter().zip(texts.iter()) {
            rep.cases += 1;
            rep.count("pe instruction encodings checked against LLVM");
            let ok = text.as_deref().map(|t| agrees_pe(eff, t)).unwrap_or(false);
            if !ok {
                rep.add_finding(Finding {
                    props: vec!["C03".into()],
                    kind: "correspondence".into(),
                    key: "generator-encoding-pe".into(),
                    what: "generator check: LLVM does not disassemble the bytes of a synthesized PE prolog/epilog instruction to the instruction the simulator assumes (harness defect)".into(),
                    case: format!("bytes={} assumed effect={eff:?}", bytes.iter().map(|b| format!("{b:02x}")).collect::<String>()),
                    impl_out: text.clone().unwrap_or_else(|| "(not one instruction)".into()),
                    model_out: format!("{eff:?}"),
                });
            }
        }
    }
    rep
}
