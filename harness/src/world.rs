//! Operation histories over real `Unwinder`s / `Cache`s, mirrored on the Lean model.
use crate::cfi;
use crate::mem::MemDesc;
use crate::rules::{show_res, RegsA, RegsX};
use crate::spec::*;
use crate::util::*;
use framehop::aarch64::{CacheAarch64, UnwindRegsAarch64, UnwinderAarch64};
use framehop::x86_64::{CacheX86_64, UnwindRegsX86_64, UnwinderX86_64};
use framehop::{
    AllocationPolicy, CacheStats, Error, ExplicitModuleSectionInfo, FrameAddress, Module, Unwinder,
};
use std::collections::BTreeMap;
use std::marker::PhantomData;
use std::sync::atomic::{AtomicU64, Ordering};
use std::sync::Arc;

/// Number of times framehop dereferenced section data (C20: a cache hit must not).
pub static SECTION_TOUCHES: AtomicU64 = AtomicU64::new(0);

#[derive(Clone, Default)]
pub struct Bytes(pub Arc<Vec<u8>>);

impl std::ops::Deref for Bytes {
    type Target = [u8];
    fn deref(&self) -> &[u8] {
        SECTION_TOUCHES.fetch_add(1, Ordering::Relaxed);
        &self.0
    }
}

fn bytes(v: Vec<u8>) -> Bytes {
    Bytes(Arc::new(v))
}

#[derive(Clone, Debug, PartialEq)]
pub enum RegsAny {
    X(RegsX),
    A(RegsA),
}

impl RegsAny {
    pub fn line(&self) -> String {
        match self {
            RegsAny::X(r) => r.show(),
            RegsAny::A(r) => r.show_in(),
        }
    }
    pub fn show(&self) -> String {
        match self {
            RegsAny::X(r) => r.show(),
            RegsAny::A(r) => r.show(),
        }
    }
    pub fn sp(&self) -> u64 {
        match self {
            RegsAny::X(r) => r.sp(),
            RegsAny::A(r) => r.sp,
        }
    }
    pub fn fp(&self) -> u64 {
        match self {
            RegsAny::X(r) => r.bp(),
            RegsAny::A(r) => r.fp,
        }
    }
    pub fn ip_or_lr(&self) -> u64 {
        match self {
            RegsAny::X(r) => r.ip,
            RegsAny::A(r) => r.lr,
        }
    }
}

/// Builds the real `Module` for an abstract description.
pub fn build_module(arch: Arch, name: &str, m: &ModSpec) -> Module<Bytes> {
    if let DataSpec::Pe(funcs) = &m.data {
        return crate::pe::build_pe_module(name, m, funcs);
    }
    if let DataSpec::Macho(spec) = &m.data {
        return crate::macho::build_macho_module(arch, name, m, spec);
    }
    Module::new(name.to_string(), m.start..m.end, m.base_avma, dwarf_section_info(arch, m))
}

/// The sections of a DWARF (or data-less) module description.
pub fn dwarf_section_info(arch: Arch, m: &ModSpec) -> ExplicitModuleSectionInfo<Bytes> {
    let text_svma = m.base_svma.wrapping_add(m.start.wrapping_sub(m.base_avma));
    let text_svma_end = m.base_svma.wrapping_add(m.end.wrapping_sub(m.base_avma));
    let eh_frame_svma = text_svma_end.wrapping_add(0x1000) & !7;
    // the search table's entries are relative to the header's own address: usually the header
    // lies above all code (every entry negative); one module in three states it in the middle of
    // its text range instead, so that the table holds entries of both signs (code sections on
    // both sides of `.eh_frame_hdr`)
    let hdr_svma = if (m.start / 8 + m.n_cies as u64) % 3 == 0 && m.end - m.start >= 0x40 {
        text_svma.wrapping_add((m.end - m.start) / 2) & !3
    } else {
        eh_frame_svma.wrapping_add(0x80_0000)
    };
    let mut info: ExplicitModuleSectionInfo<Bytes> = ExplicitModuleSectionInfo {
        base_svma: m.base_svma,
        text_svma: Some(text_svma..text_svma_end),
        ..Default::default()
    };
    match &m.data {
        DataSpec::None | DataSpec::Pe(_) | DataSpec::Macho(_) => {}
        DataSpec::Dwarf(pres, fdes) => match pres {
            Pres::Hdr | Pres::Idx => {
                let enc = if cfi::enc_fits(m.enc, fdes, eh_frame_svma, text_svma) {
                    m.enc
                } else {
                    PtrEnc::Abs8
                };
                let eh = cfi::write_eh_frame(arch, fdes, enc, eh_frame_svma, text_svma, m.n_cies);
                if *pres == Pres::Hdr {
                    let abs = m.hdr_abs || !cfi::hdr_rel_fits(fdes, hdr_svma, eh_frame_svma);
                    let hdr = cfi::write_eh_frame_hdr(&eh, hdr_svma, eh_frame_svma, abs);
                    info.eh_frame_hdr_svma = Some(hdr_svma..hdr_svma.wrapping_add(hdr.len() as u64));
                    info.eh_frame_hdr = Some(bytes(hdr));
                }
                info.eh_frame_svma =
                    Some(eh_frame_svma..eh_frame_svma.wrapping_add(eh.bytes.len() as u64));
                info.eh_frame = Some(bytes(eh.bytes));
            }
            Pres::Dbg => {
                let d = cfi::write_debug_frame(arch, fdes, m.dbg_version, m.n_cies);
                info.debug_frame = Some(bytes(d));
            }
        },
    }
    info
}

/// Architecture + allocation policy specific glue.
pub trait ArchH {
    const ARCH: Arch;
    type Regs: Clone;
    type Cache;
    type Unw: Unwinder<UnwindRegs = Self::Regs, Cache = Self::Cache, Module = Module<Bytes>>;
    fn new_unw() -> Self::Unw;
    fn new_cache() -> Self::Cache;
    fn gen(u: &Self::Unw) -> u16;
    fn find(u: &Self::Unw, a: u64) -> Option<(usize, u32)>;
    fn ranges(u: &Self::Unw) -> Vec<(u64, u64, u64)>;
    fn stats(c: &Self::Cache) -> CacheStats;
    fn to_fh(r: &RegsAny) -> Self::Regs;
    fn from_fh(r: &Self::Regs) -> RegsAny;
}

pub struct X64H<P>(PhantomData<P>);
pub struct A64H<P>(PhantomData<P>);

impl<P: AllocationPolicy> ArchH for X64H<P> {
    const ARCH: Arch = Arch::X64;
    type Regs = UnwindRegsX86_64;
    type Cache = CacheX86_64<P>;
    type Unw = UnwinderX86_64<Bytes, P>;
    fn new_unw() -> Self::Unw {
        UnwinderX86_64::new()
    }
    fn new_cache() -> Self::Cache {
        CacheX86_64::new_in()
    }
    fn gen(u: &Self::Unw) -> u16 {
        u.verif_modules_generation()
    }
    fn find(u: &Self::Unw, a: u64) -> Option<(usize, u32)> {
        u.verif_find_module_for_address(a)
    }
    fn ranges(u: &Self::Unw) -> Vec<(u64, u64, u64)> {
        u.verif_module_ranges()
    }
    fn stats(c: &Self::Cache) -> CacheStats {
        c.stats()
    }
    fn to_fh(r: &RegsAny) -> Self::Regs {
        match r {
            RegsAny::X(r) => r.to_fh(),
            _ => panic!("arch mismatch"),
        }
    }
    fn from_fh(r: &Self::Regs) -> RegsAny {
        RegsAny::X(RegsX::from_fh(r))
    }
}

impl<P: AllocationPolicy> ArchH for A64H<P> {
    const ARCH: Arch = Arch::A64;
    type Regs = UnwindRegsAarch64;
    type Cache = CacheAarch64<P>;
    type Unw = UnwinderAarch64<Bytes, P>;
    fn new_unw() -> Self::Unw {
        UnwinderAarch64::new()
    }
    fn new_cache() -> Self::Cache {
        CacheAarch64::new_in()
    }
    fn gen(u: &Self::Unw) -> u16 {
        u.verif_modules_generation()
    }
    fn find(u: &Self::Unw, a: u64) -> Option<(usize, u32)> {
        u.verif_find_module_for_address(a)
    }
    fn ranges(u: &Self::Unw) -> Vec<(u64, u64, u64)> {
        u.verif_module_ranges()
    }
    fn stats(c: &Self::Cache) -> CacheStats {
        c.stats()
    }
    fn to_fh(r: &RegsAny) -> Self::Regs {
        match r {
            RegsAny::A(r) => r.to_fh(),
            _ => panic!("arch mismatch"),
        }
    }
    fn from_fh(r: &Self::Regs) -> RegsAny {
        RegsAny::A(RegsA::from_fh(r))
    }
}

#[derive(Clone, Debug)]
pub enum Op {
    Mod { m: String, spec: ModSpec },
    New { u: String },
    Clone { u: String, from: String },
    Add { u: String, m: String },
    Remove { u: String, start: u64 },
    Find { u: String, addr: u64 },
    Max { u: String },
    NewCache { c: String },
    Unwind { u: String, c: String, is_ra: bool, addr: u64, regs: RegsAny, mem: MemDesc },
    Iter { u: String, c: String, pc: u64, regs: RegsAny, mem: MemDesc, extra: u64, max: u64 },
}

impl Op {
    pub fn line(&self, id: u64) -> String {
        match self {
            Op::Mod { m, spec } => format!("mod {id} m={m} {}", spec.line_fields()),
            Op::New { u } => format!("new {id} u={u}"),
            Op::Clone { u, from } => format!("clone {id} u={u} from={from}"),
            Op::Add { u, m } => format!("add {id} u={u} m={m}"),
            Op::Remove { u, start } => format!("remove {id} u={u} start={}", hex(*start)),
            Op::Find { u, addr } => format!("find {id} u={u} addr={}", hex(*addr)),
            Op::Max { u } => format!("max {id} u={u}"),
            Op::NewCache { c } => format!("newcache {id} c={c}"),
            Op::Unwind { u, c, is_ra, addr, regs, mem } => format!(
                "unwind {id} u={u} c={c} kind={} addr={} {} mem={}",
                if *is_ra { "ra" } else { "ip" },
                hex(*addr),
                regs.line(),
                mem.to_line()
            ),
            Op::Iter { u, c, pc, regs, mem, extra, max } => format!(
                "iter {id} u={u} c={c} pc={} {} mem={} extra={} max={}",
                hex(*pc),
                regs.line(),
                mem.to_line(),
                hex(*extra),
                hex(*max)
            ),
        }
    }
}

pub fn show_stats(s: &CacheStats) -> String {
    format!(
        "stats={},{},{},{}",
        hex(s.hit_count),
        hex(s.miss_empty_slot_count),
        hex(s.miss_wrong_modules_count),
        hex(s.miss_wrong_address_count)
    )
}

pub fn show_item(r: &Result<Option<FrameAddress>, Error>) -> String {
    match r {
        Ok(Some(FrameAddress::InstructionPointer(a))) => format!("ip:{}", hex(*a)),
        Ok(Some(FrameAddress::ReturnAddress(a))) => format!("ra:{}", hex(u64::from(*a))),
        Ok(None) => "none".into(),
        Err(e) => crate::rules::show_err(e),
    }
}

/// Extra observations the oracles use, beside the answer line compared with the model.
#[derive(Default, Clone, Debug)]
pub struct Obs {
    pub panicked: Option<String>,
    pub res: Option<Result<Option<u64>, Error>>,
    pub regs_before: Option<RegsAny>,
    pub regs_after: Option<RegsAny>,
    pub stats_before: Option<[u64; 4]>,
    pub stats_after: Option<[u64; 4]>,
    pub section_touches: u64,
    pub reads: Vec<(u64, bool)>,
    pub gen: Option<u16>,
    pub drew: bool,
    pub items: Vec<String>,
    /// (address, sp, fp) after each successful iterator step (C10: no state twice).
    pub states: Vec<(u64, u64, u64)>,
}

fn stats_arr(s: &CacheStats) -> [u64; 4] {
    [
        s.hit_count,
        s.miss_empty_slot_count,
        s.miss_wrong_modules_count,
        s.miss_wrong_address_count,
    ]
}

pub struct World<H: ArchH> {
    pub mods: BTreeMap<String, (ModSpec, Module<Bytes>)>,
    pub unws: BTreeMap<String, H::Unw>,
    /// Reference module set per unwinder (harness-side oracle for C07): module ids.
    pub live: BTreeMap<String, Vec<String>>,
    pub caches: BTreeMap<String, H::Cache>,
    pub c0: u16,
}

impl<H: ArchH> World<H> {
    pub fn new() -> Self {
        World {
            mods: BTreeMap::new(),
            unws: BTreeMap::new(),
            live: BTreeMap::new(),
            caches: BTreeMap::new(),
            c0: framehop::verif_hooks::peek_global_modules_generation(),
        }
    }

    pub fn init_line(&self, id: u64, n_slots: u64) -> String {
        format!("init {id} arch={} n={} c0={}", H::ARCH.name(), hex(n_slots), hex(self.c0 as u64))
    }

    pub fn unwind_once(
        unw: &H::Unw,
        cache: &mut H::Cache,
        is_ra: bool,
        addr: u64,
        regs: &RegsAny,
        mem: &MemDesc,
    ) -> (Result<(Result<Option<u64>, Error>, RegsAny), String>, Vec<(u64, bool)>) {
        let mut reads = Vec::new();
        let fa = if is_ra {
            FrameAddress::from_return_address(addr).expect("nonzero return address")
        } else {
            FrameAddress::from_instruction_pointer(addr)
        };
        let mut g = H::to_fh(regs);
        let r = catch(|| {
            let mut rs = |a: u64| {
                let v = mem.read(a);
                reads.push((a, v.is_err()));
                v
            };
            unw.unwind_frame(fa, &mut g, cache, &mut rs)
        });
        (r.map(|res| (res, H::from_fh(&g))), reads)
    }

    /// Executes one operation on the implementation; returns the answer line (same format
    /// as the Lean driver's) and the observations.
    pub fn exec(&mut self, op: &Op) -> (String, Obs) {
        crate::util::beat();
        let mut obs = Obs::default();
        let ans = match op {
            Op::Mod { m, spec } => {
                let r = catch(|| build_module(H::ARCH, m, spec));
                match r {
                    Ok(module) => {
                        self.mods.insert(m.clone(), (spec.clone(), module));
                        "ok".into()
                    }
                    Err(loc) => {
                        obs.panicked = Some(loc);
                        "panic".into()
                    }
                }
            }
            Op::New { u } => {
                let unw = H::new_unw();
                let g = H::gen(&unw);
                self.unws.insert(u.clone(), unw);
                self.live.insert(u.clone(), vec![]);
                obs.gen = Some(g);
                obs.drew = true;
                format!("gen={}", hex(g as u64))
            }
            Op::Clone { u, from } => {
                let unw = self.unws[from].clone();
                let g = H::gen(&unw);
                self.unws.insert(u.clone(), unw);
                let l = self.live[from].clone();
                self.live.insert(u.clone(), l);
                obs.gen = Some(g);
                format!("gen={}", hex(g as u64))
            }
            Op::Add { u, m } => {
                let module = self.mods[m].1.clone();
                let unw = self.unws.get_mut(u).unwrap();
                unw.add_module(module);
                let g = H::gen(unw);
                self.live.get_mut(u).unwrap().push(m.clone());
                obs.gen = Some(g);
                obs.drew = true;
                format!("gen={}", hex(g as u64))
            }
            Op::Remove { u, start } => {
                let unw = self.unws.get_mut(u).unwrap();
                let before = H::gen(unw);
                unw.remove_module(*start);
                let g = H::gen(unw);
                let mods = &self.mods;
                let live = self.live.get_mut(u).unwrap();
                let had = live.iter().any(|mid| mods[mid].0.start == *start);
                if let Some(pos) = live.iter().position(|mid| mods[mid].0.start == *start) {
                    live.remove(pos);
                }
                obs.gen = Some(g);
                obs.drew = g != before || had;
                format!("gen={}", hex(g as u64))
            }
            Op::Find { u, addr } => match catch(|| H::find(&self.unws[u], *addr)) {
                Ok(Some((i, rel))) => format!("{}:{}", hex(i as u64), hex(rel as u64)),
                Ok(None) => "none".into(),
                Err(loc) => {
                    obs.panicked = Some(loc);
                    "panic".into()
                }
            },
            Op::Max { u } => hex(self.unws[u].max_known_code_address()),
            Op::NewCache { c } => {
                self.caches.insert(c.clone(), H::new_cache());
                "ok".into()
            }
            Op::Unwind { u, c, is_ra, addr, regs, mem } => {
                let unw = &self.unws[u];
                let cache = self.caches.get_mut(c).unwrap();
                obs.stats_before = Some(stats_arr(&H::stats(cache)));
                obs.regs_before = Some(regs.clone());
                let t0 = SECTION_TOUCHES.load(Ordering::Relaxed);
                let (r, reads) = Self::unwind_once(unw, cache, *is_ra, *addr, regs, mem);
                obs.section_touches = SECTION_TOUCHES.load(Ordering::Relaxed) - t0;
                obs.reads = reads;
                let st = H::stats(cache);
                obs.stats_after = Some(stats_arr(&st));
                match r {
                    Ok((res, after)) => {
                        let s = format!(
                            "{} {} {} t={}",
                            show_res(&res),
                            after.show(),
                            show_stats(&st),
                            (obs.section_touches > 0) as u8
                        );
                        obs.res = Some(res);
                        obs.regs_after = Some(after);
                        s
                    }
                    Err(loc) => {
                        obs.panicked = Some(loc);
                        format!("panic {} t={}", show_stats(&st), (obs.section_touches > 0) as u8)
                    }
                }
            }
            Op::Iter { u, c, pc, regs, mem, extra, max } => {
                let unw = &self.unws[u];
                let cache = self.caches.get_mut(c).unwrap();
                let mut items = Vec::new();
                let mut states: Vec<(u64, u64, u64)> = Vec::new();
                let mut rs = |a: u64| mem.read(a);
                let r = catch(|| {
                    let mut it = unw.iter_frames(*pc, H::to_fh(regs), cache, &mut rs);
                    let mut fuel = *max;
                    let mut extra = *extra;
                    let mut finished = false;
                    loop {
                        if fuel == 0 {
                            items.push("cap".to_string());
                            break;
                        }
                        if finished && extra == 0 {
                            break;
                        }
                        fuel -= 1;
                        let item = it.next();
                        let fin = !matches!(item, Ok(Some(_)));
                        if finished {
                            extra -= 1;
                        }
                        finished = finished || fin;
                        if let Ok(Some(fa)) = &item {
                            let g = H::from_fh(it.verif_regs());
                            states.push((fa.address(), g.sp(), g.fp()));
                        }
                        items.push(show_item(&item));
                    }
                    // the iterator owns the registers; expose them through a final clone
                    H::from_fh(it.verif_regs())
                });
                let st = H::stats(cache);
                obs.items = items.clone();
                obs.states = states;
                match r {
                    Ok(after) => format!("items={} {} {}", items.join(","), after.show(), show_stats(&st)),
                    Err(loc) => {
                        obs.panicked = Some(loc);
                        "panic".into()
                    }
                }
            }
        };
        (ans, obs)
    }
}
