//! Mach-O compact unwind: writer for `__unwind_info` (regular and compressed second-level
//! pages, global and page-local opcodes), opcode encoders, abstract description for the Lean
//! model, synthesized programs (reusing `prog.rs`) with ground truth, and the engines `macho`
//! (whole walks at every instruction boundary incl. prologues, epilogues, stubs) and `ana`
//! (instruction analysis through the hooks: grammar instances, structured random words, byte
//! soup) — C02.
use crate::cfi;
use crate::hist::{push_pending, Pending};
use crate::mem::{Dflt, MemDesc};
use crate::prog::*;
use crate::rules::{show_rule_a, show_rule_x, RegsA, RegsX};
use crate::spec::*;
use crate::util::*;
use crate::world::*;
use framehop::verif_hooks as hooks;
use framehop::MayAllocateDuringUnwind;
use macho_unwind_info::opcodes::{OpcodeArm64, OpcodeX86_64, RegisterNameX86_64};

#[derive(Clone, Debug, PartialEq)]
pub struct MachoSpec {
    /// (start offset from the module base, opcode), sorted; the last entry only marks the end.
    pub entries: Vec<(u32, u32)>,
    pub stubs: Option<(u32, u32)>,
    pub stub_helper: Option<(u32, u32)>,
    /// Offset of the text bytes from the module base, and the bytes.
    pub text: Option<(u32, Vec<u8>)>,
    /// `__eh_frame` FDEs (stated addresses).
    pub eh: Option<Vec<FdeSpec>>,
    pub compressed_pages: bool,
    pub entries_per_page: usize,
    /// Supply the text as the whole `__TEXT` segment instead of the `__text` section.
    pub text_as_segment: bool,
    /// (stated FDE start, offset of the FDE in `__eh_frame`), as the CFI writer lays them out.
    pub eh_offsets: Vec<(u64, u64)>,
}

fn show_regs6(regs: &[Option<RegisterNameX86_64>]) -> String {
    regs.iter()
        .map(|r| match r {
            None => '-',
            Some(RegisterNameX86_64::Rbx) => 'b',
            Some(RegisterNameX86_64::R12) => '2',
            Some(RegisterNameX86_64::R13) => '3',
            Some(RegisterNameX86_64::R14) => '4',
            Some(RegisterNameX86_64::R15) => '5',
            Some(RegisterNameX86_64::Rbp) => 'p',
        })
        .collect()
}

pub fn show_op_x64(opcode: u32) -> String {
    match OpcodeX86_64::parse(opcode) {
        OpcodeX86_64::Null => "N".into(),
        OpcodeX86_64::FrameBased { .. } => "B".into(),
        OpcodeX86_64::FramelessImmediate { stack_size_in_bytes, saved_regs } => {
            format!("I.{}.{}", hex(stack_size_in_bytes as u64), show_regs6(&saved_regs))
        }
        OpcodeX86_64::FramelessIndirect { immediate_offset_from_function_start, stack_adjust_in_bytes, saved_regs } => format!(
            "X.{}.{}.{}",
            hex(immediate_offset_from_function_start as u64),
            hex(stack_adjust_in_bytes as u64),
            show_regs6(&saved_regs)
        ),
        OpcodeX86_64::Dwarf { eh_frame_fde } => format!("D.{}", hex(eh_frame_fde as u64)),
        OpcodeX86_64::InvalidFrameless => "V".into(),
        OpcodeX86_64::UnrecognizedKind(k) => format!("U.{}", hex(k as u64)),
    }
}

pub fn show_op_a64(opcode: u32) -> String {
    match OpcodeArm64::parse(opcode) {
        OpcodeArm64::Null => "N".into(),
        OpcodeArm64::Frameless { stack_size_in_bytes } => format!("L.{}", hex(stack_size_in_bytes as u64)),
        OpcodeArm64::Dwarf { eh_frame_fde } => format!("D.{}", hex(eh_frame_fde as u64)),
        OpcodeArm64::FrameBased { .. } => "B".into(),
        OpcodeArm64::UnrecognizedKind(k) => format!("U.{}", hex(k as u64)),
    }
}

impl MachoSpec {
    /// `macho;<stubs>;<helper>;<text>;<funcs>;<eh>` for the Lean driver. `eh_offsets` are the
    /// section offsets the CFI writer gave the FDEs.
    pub fn show(&self) -> String {
        let eh_offsets = &self.eh_offsets;
        let range = |r: &Option<(u32, u32)>| match r {
            Some((a, b)) => format!("{}-{}", hex(*a as u64), hex(*b as u64)),
            None => "0-0".into(),
        };
        let text = match &self.text {
            Some((off, bytes)) => format!("{}:{}", hex(*off as u64), bytes.iter().map(|b| format!("{b:02x}")).collect::<String>()),
            None => "-".into(),
        };
        let funcs: Vec<String> = self
            .entries
            .windows(2)
            .map(|w| format!("{}@{}@{}@{}", hex(w[0].0 as u64), hex(w[1].0 as u64), show_op_x64(w[0].1), show_op_a64(w[0].1)))
            .collect();
        let eh = match &self.eh {
            None => "-".into(),
            Some(fdes) => fdes
                .iter()
                .map(|f| {
                    let off = eh_offsets.iter().find(|(s, _)| *s == f.start).map(|(_, o)| *o).unwrap_or(0);
                    format!("{}#{}", hex(off), f.show())
                })
                .collect::<Vec<_>>()
                .join("|"),
        };
        format!("macho;{};{};{};{};{}", range(&self.stubs), range(&self.stub_helper), text, funcs.join("|"), eh)
    }
}

/// `__unwind_info` bytes.
pub fn write_unwind_info(spec: &MachoSpec) -> Vec<u8> {
    // global opcodes: the most frequent ones (up to 3) when using compressed pages
    let mut globals: Vec<u32> = Vec::new();
    if spec.compressed_pages {
        for (_, op) in &spec.entries {
            if !globals.contains(op) && globals.len() < 3 {
                globals.push(*op);
            }
        }
    }
    let n = spec.entries.len() - 1; // real functions
    let per = spec.entries_per_page.max(1);
    let n_pages = n.div_ceil(per).max(1);
    let header_len = 28;
    let globals_off = header_len;
    let pers_off = globals_off + 4 * globals.len();
    let index_off = pers_off;
    let index_len = 12 * (n_pages + 1);
    let mut pages: Vec<(u32, Vec<u8>)> = Vec::new();
    for pi in 0..n_pages {
        let lo = pi * per;
        let hi = ((pi + 1) * per).min(n);
        let first = spec.entries[lo.min(n)].0;
        let mut page = Vec::new();
        let funcs = &spec.entries[lo..hi];
        let compress = spec.compressed_pages && funcs.iter().all(|(a, _)| a - first < (1 << 24));
        if compress {
            let mut locals: Vec<u32> = Vec::new();
            let mut ents: Vec<u32> = Vec::new();
            for (a, op) in funcs {
                let idx = if let Some(i) = globals.iter().position(|g| g == op) {
                    i
                } else if let Some(i) = locals.iter().position(|g| g == op) {
                    globals.len() + i
                } else {
                    locals.push(*op);
                    globals.len() + locals.len() - 1
                };
                ents.push(((idx as u32) << 24) | (a - first));
            }
            page.extend_from_slice(&3u32.to_le_bytes());
            page.extend_from_slice(&12u16.to_le_bytes());
            page.extend_from_slice(&(ents.len() as u16).to_le_bytes());
            page.extend_from_slice(&((12 + 4 * ents.len()) as u16).to_le_bytes());
            page.extend_from_slice(&(locals.len() as u16).to_le_bytes());
            for e in ents {
                page.extend_from_slice(&e.to_le_bytes());
            }
            for l in locals {
                page.extend_from_slice(&l.to_le_bytes());
            }
        } else {
            page.extend_from_slice(&2u32.to_le_bytes());
            page.extend_from_slice(&8u16.to_le_bytes());
            page.extend_from_slice(&(funcs.len() as u16).to_le_bytes());
            for (a, op) in funcs {
                page.extend_from_slice(&a.to_le_bytes());
                page.extend_from_slice(&op.to_le_bytes());
            }
        }
        pages.push((first, page));
    }
    let mut out = Vec::new();
    out.extend_from_slice(&1u32.to_le_bytes());
    out.extend_from_slice(&(globals_off as u32).to_le_bytes());
    out.extend_from_slice(&(globals.len() as u32).to_le_bytes());
    out.extend_from_slice(&(pers_off as u32).to_le_bytes());
    out.extend_from_slice(&0u32.to_le_bytes());
    out.extend_from_slice(&(index_off as u32).to_le_bytes());
    out.extend_from_slice(&((n_pages + 1) as u32).to_le_bytes());
    for g in &globals {
        out.extend_from_slice(&g.to_le_bytes());
    }
    let mut page_off = index_off + index_len;
    for (first, page) in &pages {
        out.extend_from_slice(&first.to_le_bytes());
        out.extend_from_slice(&(page_off as u32).to_le_bytes());
        out.extend_from_slice(&0u32.to_le_bytes());
        page_off += page.len();
    }
    // sentinel
    out.extend_from_slice(&spec.entries[n].0.to_le_bytes());
    out.extend_from_slice(&0u32.to_le_bytes());
    out.extend_from_slice(&0u32.to_le_bytes());
    for (_, page) in &pages {
        out.extend_from_slice(page);
    }
    out
}

pub const EH_FRAME_OFFSET: u64 = 0x10_0000;

pub fn build_macho_module(arch: Arch, name: &str, m: &ModSpec, spec: &MachoSpec) -> framehop::Module<Bytes> {
    framehop::Module::new(name.to_string(), m.start..m.end, m.base_avma, macho_section_info(arch, m, spec))
}

pub fn macho_section_info(arch: Arch, m: &ModSpec, spec: &MachoSpec) -> framehop::ExplicitModuleSectionInfo<Bytes> {
    let mut info: framehop::ExplicitModuleSectionInfo<Bytes> = framehop::ExplicitModuleSectionInfo {
        base_svma: m.base_svma,
        ..Default::default()
    };
    let b = |v: Vec<u8>| Bytes(std::sync::Arc::new(v));
    info.unwind_info = Some(b(write_unwind_info(spec)));
    if let Some((off, bytes)) = &spec.text {
        let r = m.base_svma + *off as u64..m.base_svma + *off as u64 + bytes.len() as u64;
        if spec.text_as_segment {
            info.text_segment_svma = Some(r);
            info.text_segment = Some(b(bytes.clone()));
        } else {
            info.text_svma = Some(r);
            info.text = Some(b(bytes.clone()));
        }
    }
    if let Some((a, e)) = spec.stubs {
        info.stubs_svma = Some(m.base_svma + a as u64..m.base_svma + e as u64);
    }
    if let Some((a, e)) = spec.stub_helper {
        info.stub_helper_svma = Some(m.base_svma + a as u64..m.base_svma + e as u64);
    }
    if let Some(fdes) = &spec.eh {
        let eh_svma = m.base_svma + EH_FRAME_OFFSET;
        let eh = cfi::write_eh_frame(arch, fdes, PtrEnc::Abs8, eh_svma, m.base_svma, 1);
        assert_eq!(eh.fde_offsets, spec.eh_offsets);
        info.eh_frame_svma = Some(eh_svma..eh_svma + eh.bytes.len() as u64);
        info.eh_frame = Some(b(eh.bytes));
    }
    info
}

// ------------------------------------------------------------------------------------------
// opcode encoders

fn encode_permutation(regs: &[u8]) -> u32 {
    // regs: register numbers 1..=6, inverse of macho-unwind-info's decode_permutation_6
    let count = regs.len();
    let mut used = [false; 6];
    let mut c = [0u32; 6];
    for (i, r) in regs.iter().enumerate() {
        let idx = (*r - 1) as usize;
        c[i] = (0..idx).filter(|j| !used[*j]).count() as u32;
        used[idx] = true;
    }
    let mut e = if count > 0 { c[0] } else { 0 };
    if count > 1 {
        e = e * 5 + c[1];
    }
    if count > 2 {
        e = e * 4 + c[2];
    }
    if count > 3 {
        e = e * 3 + c[3];
    }
    if count > 4 {
        e = e * 2 + c[4];
    }
    e
}

/// Compact unwind register number of an x86-64 push (`prog.rs` index into `X64_SAVED`, or rbp).
fn cu_reg_of_saved(i: usize) -> u8 {
    [1u8, 2, 3, 4, 5][i] // rbx, r12, r13, r14, r15
}

/// The opcode a linker would emit for a function of `prog.rs`, or `None` if it must use DWARF.
pub fn opcode_for(arch: Arch, f: &Func) -> Option<u32> {
    match arch {
        Arch::X64 => match f.shape {
            Shape::FramePointer => Some(0x0100_0000),
            Shape::Leaf => Some(0x0200_0000 | (1 << 16)), // frameless, stack size 8
            Shape::Frameless => {
                // pushes in prolog order
                let mut pushes: Vec<u8> = Vec::new();
                let mut alloc = 0u64;
                let mut other = 0usize;
                let mut sub_imm_off: Option<u64> = None;
                let mut off = 0u64;
                for i in &f.insns {
                    match i.eff {
                        Eff::PushFp => pushes.push(6),
                        Eff::PushOther => {
                            pushes.push(cu_reg_of_saved(other));
                            other += 1;
                        }
                        Eff::SubSp(n) => {
                            alloc = n;
                            sub_imm_off = Some(off + 3);
                        }
                        _ => {}
                    }
                    if matches!(i.eff, Eff::None | Eff::Call | Eff::ClobberFp(_)) {
                        break;
                    }
                    off += i.bytes.len() as u64;
                }
                let size = 8 + 8 * pushes.len() as u64 + alloc;
                // listed last-pushed first
                let regs: Vec<u8> = pushes.iter().rev().cloned().collect();
                let perm = encode_permutation(&regs);
                if size / 8 <= 255 {
                    Some(0x0200_0000 | (((size / 8) as u32) << 16) | ((regs.len() as u32) << 10) | perm)
                } else if alloc >= 128 {
                    // frameless indirect: the allocation is read from the `sub rsp, imm32`
                    let imm_off = sub_imm_off?;
                    if imm_off > 255 {
                        return None;
                    }
                    let adjust = (8 + 8 * pushes.len() as u64) / 8;
                    if adjust > 7 || size / 8 > 0xffff {
                        // a compiler falls back to DWARF for frames no compact encoding can describe
                        return None;
                    }
                    Some(0x0300_0000 | ((imm_off as u32) << 16) | ((adjust as u32) << 13) | ((regs.len() as u32) << 10) | perm)
                } else {
                    None
                }
            }
        },
        Arch::A64 => match f.shape {
            Shape::FramePointer | Shape::Frameless => Some(0x0400_0000),
            // frameless: stack size / 16 in bits 12..23
            Shape::Leaf => {
                let size: u64 = f.insns.iter().take_while(|i| matches!(i.eff, Eff::SubSp(_))).map(|i| if let Eff::SubSp(n) = i.eff { n } else { 0 }).sum();
                Some(0x0200_0000 | (((size / 16) as u32) << 12))
            }
        },
    }
}

// ------------------------------------------------------------------------------------------
// engine `macho`

fn regs_for(arch: Arch, mask: u64, addr: u64, m: &Mach, innermost: bool) -> RegsAny {
    match arch {
        Arch::X64 => {
            let mut r = [0u64; 16];
            for (i, v) in r.iter_mut().enumerate() {
                *v = 0x1000 + i as u64;
            }
            r[7] = m.sp;
            r[6] = m.fp;
            RegsAny::X(RegsX { ip: addr, r })
        }
        Arch::A64 => RegsAny::A(RegsA { mask, lr: (if innermost { m.lr } else { addr }) & mask, sp: m.sp, fp: m.fp }),
    }
}

pub fn run(tier: &str, seed: u64) -> Report {
    let mut rep = Report::new("macho");
    let mut p = Prng::new(seed.wrapping_mul(0xbb67_ae85_84ca_a73b).wrapping_add(9));
    let n: u64 = if tier == "thorough" { 20000 } else { 400 };
    for id in 0..n {
        let arch = if id % 2 == 0 { Arch::X64 } else { Arch::A64 };
        match (arch, id % 4 < 2) {
            (Arch::X64, true) => scenario::<X64H<MayAllocateDuringUnwind>>(&mut rep, &mut p, arch, id),
            (Arch::A64, true) => scenario::<A64H<MayAllocateDuringUnwind>>(&mut rep, &mut p, arch, id),
            (Arch::X64, false) => random_history::<X64H<MayAllocateDuringUnwind>>(&mut rep, &mut p, arch, id),
            (Arch::A64, false) => random_history::<A64H<MayAllocateDuringUnwind>>(&mut rep, &mut p, arch, id),
        }
    }
    crate::hist::flush(&mut rep);
    rep
}

fn scenario<H: ArchH>(rep: &mut Report, p: &mut Prng, arch: Arch, id: u64) {
    // ------------------------------------------------------------ program
    let depth = 1 + p.below(5) as usize;
    let mut funcs: Vec<Func> = Vec::new();
    let mut chain = Vec::new();
    let text_off = 0x1000u64;
    let mut start = 0u64;
    let mut ends_in_call_at: Option<usize> = None;
    for d in 0..=depth {
        let innermost = d == depth;
        // the root ends a frame pointer chain: frame pointer shape with a null record
        let shape = if d == 0 {
            Shape::FramePointer
        } else if innermost {
            *p.pick(&[Shape::FramePointer, Shape::Frameless, Shape::Leaf, Shape::Frameless])
        } else {
            *p.pick(&[Shape::FramePointer, Shape::Frameless, Shape::FramePointer])
        };
        let n_calls = if innermost { if shape == Shape::Leaf { 0 } else { p.below(2) as usize } } else { 1 + p.below(2) as usize };
        // one caller may end in a call to a function that does not return: its return address
        // is the first byte of whatever follows the function
        let ends_in_call = !innermost && ends_in_call_at.is_none() && p.chance(1, 4);
        let mut f = gen_func(p, arch, shape, false, 0, n_calls, ends_in_call);
        macho_flavour(&mut f);
        let sel = if innermost {
            0
        } else if ends_in_call {
            ends_in_call_at = Some(funcs.len());
            f.calls.len() - 1
        } else {
            p.below(f.calls.len() as u64) as usize
        };
        chain.push((funcs.len(), sel));
        funcs.push(f);
    }
    // text order: call order, or with the function that ends in a call placed last (directly
    // before __stubs), or shuffled
    let mut order: Vec<usize> = (0..funcs.len()).collect();
    match (ends_in_call_at, p.below(3)) {
        (Some(k), 0) | (Some(k), 1) => {
            order.retain(|x| *x != k);
            order.push(k);
        }
        (_, 2) => {
            for i in (1..order.len()).rev() {
                order.swap(i, p.below(i as u64 + 1) as usize);
            }
        }
        _ => {}
    }
    for &k in &order {
        funcs[k].start = start;
        start += funcs[k].len();
    }
    let any_pac = funcs.iter().any(|f| f.pac);
    let mask = if arch == Arch::A64 && (any_pac || p.chance(1, 3)) { u64::MAX >> 16 } else { u64::MAX };
    let base_avma: u64 = *p.pick(&[0x1_0000_0000u64, 0x7fff_2000_0000, 0x1_0400_0000]);
    let base_svma: u64 = *p.pick(&[0x1_0000_0000u64, 0]);
    // kernel-style placements: the load slide does not fit in an i64 (x86-64 only: arm64 return
    // addresses go through the 40-bit pointer authentication mask)
    let (base_avma, base_svma) = match (arch, p.below(8)) {
        (Arch::X64, 0) => (0xffff_ff80_0020_0000u64, base_svma),
        (Arch::X64, 1) => (0x40_0000u64, 0xffff_ff80_0020_0000u64),
        (Arch::A64, 0) if mask == u64::MAX => (0xffff_fe00_0700_0000u64, base_svma),
        _ => (base_avma, base_svma),
    };
    let stack_top: u64 = *p.pick(&[0x7ffe_e000_0000u64, 0x16_f000_0000, 0x3_0000_8000]);
    let text_avma = base_avma + text_off;
    // unwind info entries: one per function, optionally merging neighbours with equal opcodes;
    // functions that cannot be expressed as an opcode defer to DWARF
    let mut text: Vec<u8> = Vec::new();
    for &k in &order {
        text.extend_from_slice(&funcs[k].bytes());
    }
    let use_dwarf_for: Vec<bool> = funcs.iter().map(|f| opcode_for(arch, f).is_none() || p.chance(1, 6)).collect();
    let mut fdes = Vec::new();
    for (i, f) in funcs.iter().enumerate() {
        if use_dwarf_for[i] {
            fdes.push(FdeSpec { start: base_svma + text_off + f.start, len: f.len(), rows: f.fde_rows(), eval_fails: false, pac: f.pac });
        }
    }
    // FDE offsets are only known after writing; write once to learn them
    let eh_probe = cfi::write_eh_frame(arch, &fdes, PtrEnc::Abs8, base_svma + EH_FRAME_OFFSET, base_svma, 1);
    let merge = p.chance(1, 2);
    let mut entries: Vec<(u32, u32)> = Vec::new();
    for &i in &order {
        let f = &funcs[i];
        let op = if use_dwarf_for[i] {
            let off = eh_probe.fde_offsets.iter().find(|(s, _)| *s == base_svma + text_off + f.start).unwrap().1 as u32;
            (if arch == Arch::X64 { 0x0400_0000 } else { 0x0300_0000 }) | off
        } else {
            opcode_for(arch, f).unwrap()
        };
        let a = (text_off + f.start) as u32;
        if merge && entries.last().map(|e| e.1 == op && op >> 24 != 3 && !(arch == Arch::X64 && op >> 24 == 4)).unwrap_or(false) {
            continue; // merged into the previous entry
        }
        entries.push((a, op));
    }
    // a stubs / stub helper region after the text, described by a null entry
    let text_end = (text_off + start) as u32;
    let stubs = (text_end, text_end + 0x30);
    let helper = (text_end + 0x30, text_end + 0x30 + 0x40);
    entries.push((text_end, 0));
    entries.push((text_end + 0x100, 0)); // end marker
    let mspec = MachoSpec {
        entries,
        stubs: Some(stubs),
        stub_helper: Some(helper),
        text: Some((text_off as u32, text.clone())),
        eh: if fdes.is_empty() { None } else { Some(fdes) },
        compressed_pages: p.chance(1, 2),
        entries_per_page: 1 + p.below(4) as usize,
        text_as_segment: p.chance(1, 3),
        eh_offsets: eh_probe.fde_offsets.clone(),
    };
    let m = ModSpec {
        start: base_avma + text_off,
        end: base_avma + text_end as u64 + 0x100,
        base_avma,
        base_svma,
        data: DataSpec::Macho(mspec.clone()),
        enc: PtrEnc::Abs8,
        hdr_abs: true,
        dbg_version: 4,
        n_cies: 1,
    };
    let mut w: World<H> = World::new();
    let n_slots = crate::hist::cache_entry_count();
    let mut lines = vec![w.init_line(0, n_slots)];
    let mut impl_outs = vec!["ok".to_string()];
    let mut cmds = vec!["init".to_string()];
    macro_rules! op {
        ($o:expr) => {{
            let o: Op = $o;
            let idx = lines.len() as u64;
            let line = o.line(idx);
            let cmd = line.split(' ').next().unwrap().to_string();
            let (ans, obs) = w.exec(&o);
            if let Some(loc) = &obs.panicked {
                rep.add_finding(Finding {
                    props: vec!["C09".into(), "C02".into(), "C14".into()],
                    kind: "oracle".into(),
                    key: format!("macho-panic-{}", loc.split(':').take(2).collect::<Vec<_>>().join(":").rsplit('/').next().unwrap_or("?")),
                    what: format!("{cmd} panicked at {loc}"),
                    case: format!("{}\n{line}", lines.join("\n")),
                    impl_out: "panic".into(),
                    model_out: String::new(),
                });
            }
            crate::hist::fresh_cache_twin(rep, &w, &o, &ans, || format!("{}\n{line}", lines.join("\n")));
            crate::hist::step_oracles(rep, &o, &obs, &ans, || format!("{}\n{line}", lines.join("\n")));
            lines.push(line);
            cmds.push(cmd);
            impl_outs.push(ans.clone());
            ans
        }};
    }
    op!(Op::New { u: "u0".into() });
    op!(Op::NewCache { c: "c0".into() });
    op!(Op::NewCache { c: "c1".into() });
    op!(Op::Mod { m: "m0".into(), spec: m.clone() });
    op!(Op::Add { u: "u0".into(), m: "m0".into() });
    // ------------------------------------------------------------ a second dylib
    // Ordinary dylibs all state the same base address (0; main executables 0x100000000): some
    // scenarios load another image with the same stated base at a different place, with one
    // entry spanning the same relative range as m0's text but a different opcode, and look an
    // address up in it right before lookups in m0 - whatever a lookup in one image leaves
    // behind must not answer a lookup in the other
    let decoy_base: Option<u64> = if p.chance(1, 3) {
        let cands: Vec<u64> = [0x2_0000_0000u64, 0x7fff_4000_0000, 0x1_2000_0000].iter().copied().filter(|b| *b != base_avma && (arch == Arch::X64 || mask == u64::MAX || *b < (1u64 << 40))).collect();
        Some(*p.pick(&cands))
    } else {
        None
    };
    if let Some(db) = decoy_base {
        let op_d = match (arch, p.below(3)) {
            (Arch::X64, 0) => 0x0100_0000u32,
            (Arch::X64, _) => 0x0200_0000 | ((1 + p.below(12) as u32) << 16),
            (Arch::A64, 0) => 0x0400_0000,
            (Arch::A64, _) => 0x0200_0000 | ((1 + p.below(12) as u32) << 12),
        };
        let dspec = MachoSpec {
            entries: vec![(text_off as u32, op_d), (text_end + 0x100, 0)],
            stubs: None,
            stub_helper: None,
            text: None,
            eh: None,
            compressed_pages: p.chance(1, 2),
            entries_per_page: 1 + p.below(4) as usize,
            text_as_segment: false,
            eh_offsets: Vec::new(),
        };
        let md = ModSpec {
            start: db + text_off,
            end: db + text_end as u64 + 0x100,
            base_avma: db,
            base_svma,
            data: DataSpec::Macho(dspec),
            enc: PtrEnc::Abs8,
            hdr_abs: true,
            dbg_version: 4,
            n_cies: 1,
        };
        op!(Op::Mod { m: "md".into(), spec: md });
        op!(Op::Add { u: "u0".into(), m: "md".into() });
        rep.count(&format!("{} macho scenarios with a second image at the same stated base", arch.name()));
    }
    // ------------------------------------------------------------ the same module elsewhere
    // (C08: mapped range and base address moved together, stated addresses unchanged, stack
    // placed elsewhere - frames must differ by exactly the shifts)
    let base_b: u64 = if arch == Arch::X64 || mask == u64::MAX {
        *p.pick(&[0xffff_ff80_0020_0000u64, 0xffff_8000_4000_0000, 0x40_0000, 0x7f55_0000_0000, 0x1_0000_0000])
    } else {
        *p.pick(&[0x40_0000u64, 0x7f55_0000_0000, 0x1_0000_0000, 0x2_0000_4000])
    };
    let code_delta = base_b.wrapping_sub(base_avma);
    let stack_top_b: u64 = *p.pick(&[0x7ffe_e000_0000u64, 0x16_f000_0000, 0x3_0000_8000, 0x7000_0010_0000]);
    let mut m_b = m.clone();
    m_b.base_avma = base_b;
    m_b.start = m.start.wrapping_add(code_delta);
    m_b.end = m.end.wrapping_add(code_delta);
    let mut wb: World<H> = World::new();
    let mut lines_b = vec![wb.init_line(0, n_slots)];
    for o in [Op::New { u: "u0".into() }, Op::NewCache { c: "c0".into() }, Op::Mod { m: "m0".into(), spec: m_b.clone() }, Op::Add { u: "u0".into(), m: "m0".into() }] {
        lines_b.push(o.line(lines_b.len() as u64));
        wb.exec(&o);
    }
    // ------------------------------------------------------------ ground truth walks
    let inner = &funcs[chain.last().unwrap().0];
    // known finding F26: a frame of the chain whose saved rbp lies beyond the reach of the rule field
    let f26 = if arch == Arch::X64 && chain.iter().any(|(fi, _)| funcs[*fi].x64_rbp_slot_beyond_rule_field()) { "-rbp-slot-beyond-i16-rule-field" } else { "" };
    for stop in 0..inner.insns.len() {
        let mut ch = chain.clone();
        ch.last_mut().unwrap().1 = stop;
        let mut g = Prng::new(id * 991 + stop as u64);
        let truth = simulate(arch, &funcs, &ch, text_avma, stack_top, &mut g);
        let mut mem = MemDesc::new(Dflt::Const(0x6666_0000_0000 + g.below(0x100)));
        for (a, v) in &truth.stack {
            mem.entries.push((*a, Some(*v)));
        }
        mem.cut = Some(stack_top + 8);
        let pc = truth.frames[0].addr & mask;
        let regs0 = regs_for(arch, mask, pc, &truth.frames[0].mach, true);
        // the root is reached through its frame record {fp = 0, ra = 0}: the walk ends after it
        let mut want: Vec<String> = vec![format!("ip:{}", hex(pc))];
        for fr in &truth.frames[1..] {
            want.push(format!("ra:{}", hex(fr.addr & mask)));
        }
        want.push("none".into());
        if let Some(db) = decoy_base {
            let a = db + text_off + 1 + g.below((text_end as u64 - text_off).max(2) - 1);
            let r = regs_for(arch, mask, a, &truth.frames[0].mach, false);
            op!(Op::Unwind { u: "u0".into(), c: "c0".into(), is_ra: true, addr: a, regs: r, mem: mem.clone() });
        }
        let ans = op!(Op::Iter { u: "u0".into(), c: "c0".into(), pc, regs: regs0, mem: mem.clone(), extra: 0, max: 64 });
        rep.count(&format!("{} macho ground-truth walks", arch.name()));
        let got = ans.split(' ').next().unwrap_or("").trim_start_matches("items=").to_string();
        if got != want.join(",") {
            rep.add_finding(Finding {
                props: vec!["C02".into()],
                kind: "oracle".into(),
                key: format!("macho-{}-walk-differs-from-true-chain{f26}", arch.name()),
                what: format!("the true call chain is {} (innermost function shape {:?}, stopped before instruction {} of {})", want.join(","), inner.shape, stop, inner.insns.len()),
                case: lines.join("\n"),
                impl_out: got.clone(),
                model_out: String::new(),
            });
        }
        // the relocated twin, stopped at the same point
        if code_delta != 0 {
            let mut g = Prng::new(id * 991 + stop as u64);
            let truth_b = simulate(arch, &funcs, &ch, text_avma.wrapping_add(code_delta), stack_top_b, &mut g);
            let mut mem_b = MemDesc::new(mem.default.clone());
            for (a, v) in &truth_b.stack {
                mem_b.entries.push((*a, Some(*v)));
            }
            mem_b.cut = Some(stack_top_b + 8);
            let pc_b = truth_b.frames[0].addr & mask;
            let regs_b = regs_for(arch, mask, pc_b, &truth_b.frames[0].mach, true);
            let ob = Op::Iter { u: "u0".into(), c: "c0".into(), pc: pc_b, regs: regs_b, mem: mem_b, extra: 0, max: 64 };
            lines_b.push(ob.line(lines_b.len() as u64));
            let (ans_b, _) = wb.exec(&ob);
            let got_b = ans_b.split(' ').next().unwrap_or("").trim_start_matches("items=").to_string();
            let shifted: Vec<String> = got
                .split(',')
                .map(|it| match it.split_once(':') {
                    Some((k, h)) => match u64::from_str_radix(h, 16) {
                        Ok(v) => format!("{k}:{}", hex(v.wrapping_add(code_delta) & mask)),
                        Err(_) => it.to_string(),
                    },
                    None => it.to_string(),
                })
                .collect();
            rep.count(&format!("{} macho relocation twins", arch.name()));
            if shifted.join(",") != got_b {
                rep.add_finding(Finding {
                    props: vec!["C08".into()],
                    kind: "oracle".into(),
                    key: format!("macho-{}-relocated-module-unwinds-differently", arch.name()),
                    what: format!(
                        "the same Mach-O module and thread state, mapped {code_delta:#x} higher (base {base_b:#x} instead of {base_avma:#x}, stack top {stack_top_b:#x} instead of {stack_top:#x}): frames {got} should become {} but are {got_b}; twin history:\n{}",
                        shifted.join(","),
                        lines_b.join("\n")
                    ),
                    case: lines.join("\n"),
                    impl_out: got_b,
                    model_out: String::new(),
                });
            }
        }
        // single steps with the true registers: caller's sp and fp after each step
        for i in 0..truth.frames.len() {
            let fr = &truth.frames[i];
            let before = regs_for(arch, mask, fr.addr & mask, &fr.mach, i == 0);
            if let Some(db) = decoy_base {
                if g.chance(1, 2) {
                    let a = db + text_off + 1 + g.below((text_end as u64 - text_off).max(2) - 1);
                    let r = regs_for(arch, mask, a, &fr.mach, false);
                    op!(Op::Unwind { u: "u0".into(), c: "c1".into(), is_ra: true, addr: a, regs: r, mem: mem.clone() });
                }
            }
            let ans = op!(Op::Unwind { u: "u0".into(), c: "c1".into(), is_ra: i > 0, addr: fr.addr & mask, regs: before, mem: mem.clone() });
            if i + 1 < truth.frames.len() {
                let nx = &truth.frames[i + 1];
                let ok = ans.starts_with(&format!("frame:{} ", hex(nx.addr & mask))) && sp_fp_of(arch, &ans) == Some((nx.mach.sp, nx.mach.fp));
                if !ok {
                    // a return address that is the first byte of the next function / of __stubs
                    // must still be looked up in the function that made the call (C13)
                    let rel = (fr.addr & mask).wrapping_sub(base_avma);
                    // (a function hit by the recorded limitation F26 fails this step wherever its
                    // return address lies: that is F26, not a boundary lookup problem)
                    let beyond = arch == Arch::X64 && funcs[chain[chain.len() - 1 - i].0].x64_rbp_slot_beyond_rule_field();
                    let at_boundary = !beyond && i > 0 && (mspec.entries.iter().any(|e| e.0 as u64 == rel) || rel == stubs.0 as u64 || rel == helper.0 as u64);
                    rep.add_finding(Finding {
                        props: if at_boundary { vec!["C02".into(), "C13".into()] } else { vec!["C02".into()] },
                        kind: "oracle".into(),
                        key: if at_boundary { format!("macho-{}-return-address-at-boundary-unwound-with-the-wrong-function", arch.name()) } else { format!("macho-{}-step-differs-from-true-caller-state{}", arch.name(), if beyond { "-rbp-slot-beyond-i16-rule-field" } else { "" }) },
                        what: format!("the caller is at {:#x} with sp={:#x} fp={:#x}", nx.addr & mask, nx.mach.sp, nx.mach.fp),
                        case: lines.join("\n"),
                        impl_out: ans.clone(),
                        model_out: String::new(),
                    });
                }
            }
        }
    }
    // ------------------------------------------------------------ stubs and stub helper
    // a thread stopped inside a stub called from the innermost function's body
    {
        let mut ch = chain.clone();
        let body_stop = inner.insns.iter().position(|i| i.eff == Eff::None).unwrap_or(0) + 1;
        ch.last_mut().unwrap().1 = body_stop.min(inner.insns.len() - 1);
        let mut g = Prng::new(id);
        let truth = simulate(arch, &funcs, &ch, text_avma, stack_top, &mut g);
        let caller = &truth.frames[0];
        let ra = caller.addr & mask;
        for probe in 0..10u64 {
            let (pc, extra_pushed) = match (arch, probe) {
                // x86-64 stub: `jmp *[got]` — nothing pushed beyond the return address
                (_, 0) => (base_avma + stubs.0 as u64 + 6 * p.below(8), 0u64),
                // stub helper, documented layout
                (Arch::X64, 1) => (base_avma + helper.0 as u64 + p.below(7), 1),
                (Arch::X64, 2) => (base_avma + helper.0 as u64 + 7 + p.below(9), 2),
                (Arch::X64, 3) => (base_avma + helper.0 as u64 + 0x10 + 10 * p.below(4) + p.below(5), 0),
                (Arch::X64, 4) => (base_avma + helper.0 as u64 + 0x10 + 10 * p.below(4) + 5 + p.below(5), 1),
                (Arch::A64, 1) => (base_avma + helper.0 as u64 + 4 * p.below(3), 0),
                (Arch::A64, 2) => (base_avma + helper.0 as u64 + 0xc + 4 * p.below(3), 2),
                (Arch::A64, 3) => (base_avma + helper.0 as u64 + 0x18 + 4 * p.below(6), 0),
                _ => continue,
            };
            // machine state inside the stub: the caller executed a call into it
            let mut mem = MemDesc::new(Dflt::Const(0x6666_0000_0000));
            for (a, v) in &truth.stack {
                mem.entries.push((*a, Some(*v)));
            }
            mem.cut = Some(stack_top + 8);
            let (regs, want_sp) = match arch {
                Arch::X64 => {
                    let sp = caller.mach.sp - 8 - 8 * extra_pushed;
                    mem.entries.push((caller.mach.sp - 8, Some(ra)));
                    for k in 0..extra_pushed {
                        mem.entries.push((sp + 8 * k, Some(0x7777_0000 + k)));
                    }
                    (regs_for(arch, mask, pc, &Mach { sp, fp: caller.mach.fp, lr: 0 }, true), caller.mach.sp)
                }
                Arch::A64 => {
                    let sp = caller.mach.sp - 8 * extra_pushed;
                    (regs_for(arch, mask, pc, &Mach { sp, fp: caller.mach.fp, lr: ra }, true), caller.mach.sp)
                }
            };
            let ans = op!(Op::Unwind { u: "u0".into(), c: "c0".into(), is_ra: false, addr: pc, regs, mem });
            rep.count(&format!("{} stub probes", arch.name()));
            let ok = ans.starts_with(&format!("frame:{} ", hex(ra))) && sp_fp_of(arch, &ans) == Some((want_sp, caller.mach.fp));
            if !ok {
                rep.add_finding(Finding {
                    props: vec!["C02".into()],
                    kind: "oracle".into(),
                    key: format!("macho-{}-stub-step-wrong", arch.name()),
                    what: format!("inside __stubs/__stub_helper (probe kind {probe}) the caller is at {ra:#x} with sp={want_sp:#x} fp={:#x}", caller.mach.fp),
                    case: lines.join("\n"),
                    impl_out: ans,
                    model_out: String::new(),
                });
            }
        }
    }
    let _ = show_rule_x;
    let _ = show_rule_a;
    push_pending(rep, Pending { arch: arch.name().into(), hist_id: id, lines, impl_outs, cmds, truth: Vec::new(), truth_props: vec![] });
}

/// A random opcode of every kind either architecture distinguishes.
fn random_opcode(p: &mut Prng, fde_offsets: &[u64]) -> u32 {
    let flags = (p.below(4) as u32) << 30 | if p.chance(1, 8) { (p.below(4) as u32) << 28 } else { 0 };
    let body: u32 = match p.below(16) {
        0 => 0,
        1 => 0x0100_0000 | (p.next() as u32 & 0x7fff),
        2 => 0x0200_0000 | (1 << 16),
        3 | 4 => 0x0200_0000 | ((p.below(40) as u32) << 16) | ((p.below(7) as u32) << 10) | (p.next() as u32 & 0x3ff),
        5 => 0x0200_0000 | ((p.next() as u32 & 0xff) << 16) | (p.next() as u32 & 0x1fff),
        6 => 0x0300_0000 | ((p.below(24) as u32) << 16) | ((p.below(8) as u32) << 13) | ((p.below(7) as u32) << 10) | (p.next() as u32 & 0x3ff),
        7 | 8 => {
            let off = match p.below(4) {
                0 => 0,
                1 => 0xff_fff0,
                _ => fde_offsets.get(p.below(fde_offsets.len().max(1) as u64) as usize).cloned().unwrap_or(0x40),
            };
            (if p.chance(1, 2) { 0x0400_0000 } else { 0x0300_0000 }) | off as u32
        }
        9 => 0x0400_0000 | (p.next() as u32 & 0xfff),
        10 => ((5 + p.below(11)) as u32) << 24,
        12 | 13 if !fde_offsets.is_empty() => {
            // defers to an FDE that exists (x86-64 mode 4 / arm64 mode 3)
            let off = fde_offsets[p.below(fde_offsets.len() as u64) as usize];
            (if p.chance(1, 2) { 0x0400_0000 } else { 0x0300_0000 }) | off as u32
        }
        11 => {
            // a well-formed frameless entry: 1-6 distinct saved registers in any order (rbp at
            // any position), a frame that holds them
            let count = 1 + p.below(6) as usize;
            let mut regs: Vec<u8> = vec![1, 2, 3, 4, 5, 6];
            for i in (1..regs.len()).rev() {
                regs.swap(i, p.below(i as u64 + 1) as usize);
            }
            regs.truncate(count);
            let size_by_8 = (count as u32 + 1 + p.below(8) as u32).min(255);
            0x0200_0000 | (size_by_8 << 16) | ((count as u32) << 10) | encode_permutation(&regs)
        }
        _ => 0x0200_0000 | ((p.below(0x1000) as u32) << 12),
    };
    (body & 0x0fff_ffff) | (flags & 0xf000_0000)
}

/// Random compact unwind tables (every opcode kind, valid and invalid operands, text present,
/// partial or absent) looked up at random addresses with random thread states, compared with
/// the model answer by answer.
/// A random Mach-O module (see `random_history`) and the relative addresses worth probing.
pub fn gen_random_macho(p: &mut Prng, arch: Arch) -> (ModSpec, Vec<u64>) {
    let text_off = *p.pick(&[0x1000u64, 0x1000, 0x4000, 0]);
    let n_funcs = 1 + p.below(6) as usize;
    let mut funcs: Vec<Func> = Vec::new();
    let mut start = 0u64;
    for _ in 0..n_funcs {
        let shape = *p.pick(&[Shape::FramePointer, Shape::Frameless, Shape::Leaf]);
        let nc = p.below(2) as usize;
        let mut f = gen_func(p, arch, shape, false, start, nc, false);
        macho_flavour(&mut f);
        start += f.len();
        funcs.push(f);
    }
    let mut text: Vec<u8> = Vec::new();
    for f in &funcs {
        text.extend_from_slice(&f.bytes());
    }
    // some scenarios replace the code by structured noise
    if p.chance(1, 4) {
        let n = text.len() / 4 + 1;
        text = structured(p, arch, n);
        text.truncate(start as usize);
        while (text.len() as u64) < start {
            text.push(0x90);
        }
    }
    let base_avma: u64 = *p.pick(&[0x1_0000_0000u64, 0x7fff_2000_0000, 0x40_0000]);
    let base_svma: u64 = *p.pick(&[0x1_0000_0000u64, 0, 0x1000]);
    let (base_avma, base_svma) = match (arch, p.below(8)) {
        (Arch::X64, 0) => (0xffff_ff80_0020_0000u64, base_svma),
        (Arch::X64, 1) => (0x40_0000u64, 0xffff_ff80_0020_0000u64),
        _ => (base_avma, base_svma),
    };
    // a quarter of the modules defer every function to DWARF, with random (often not
    // cacheable) rows: the NeedDwarf path with the generic evaluator
    let focus_dwarf = p.chance(1, 4);
    let mut fdes: Vec<FdeSpec> = Vec::new();
    for f in &funcs {
        if !focus_dwarf && p.chance(1, 2) {
            continue;
        }
        fdes.push(FdeSpec {
            start: base_svma + text_off + f.start,
            len: f.len(),
            rows: if focus_dwarf || p.chance(1, 3) { vec![(0, crate::gen::gen_row(p, arch))] } else { f.fde_rows() },
            eval_fails: false,
            pac: f.pac,
        });
    }
    let with_eh = !fdes.is_empty() && (focus_dwarf || p.chance(5, 6));
    let eh_probe = cfi::write_eh_frame(arch, &fdes, PtrEnc::Abs8, base_svma + EH_FRAME_OFFSET, base_svma, 1);
    let offs: Vec<u64> = eh_probe.fde_offsets.iter().map(|x| x.1).collect();
    let mut entries: Vec<(u32, u32)> = Vec::new();
    let first_gap = if p.chance(1, 3) && funcs[0].len() > 4 { 4 } else { 0 };
    for (i, f) in funcs.iter().enumerate() {
        if i > 0 && p.chance(1, 5) {
            continue; // covered by the previous entry
        }
        let a = (text_off + f.start) as u32 + if i == 0 { first_gap } else { 0 };
        let op = if focus_dwarf && p.chance(3, 4) {
            let fde_off = eh_probe.fde_offsets.iter().find(|(s, _)| *s == base_svma + text_off + f.start).map(|x| x.1).unwrap_or(0);
            (if arch == Arch::X64 { 0x0400_0000u32 } else { 0x0300_0000 }) | fde_off as u32
        } else {
            random_opcode(p, &offs)
        };
        entries.push((a, op));
    }
    let text_end = (text_off + start) as u32;
    let stubs = match p.below(3) {
        0 => None,
        _ => Some((text_end, text_end + 0x30)),
    };
    let helper = match p.below(3) {
        0 => None,
        _ => Some((text_end + 0x30, text_end + 0x70)),
    };
    if p.chance(1, 2) {
        entries.push((text_end, 0));
    }
    entries.push((text_end + 0x100, 0)); // end marker
    // text: complete, absent, truncated, or starting after the first function
    let text_spec = match p.below(6) {
        0 => None,
        1 => {
            let keep = p.below(text.len() as u64 + 1) as usize;
            Some((text_off as u32, text[..keep].to_vec()))
        }
        2 if funcs.len() > 1 => {
            let skip = funcs[1].start as usize;
            Some(((text_off as usize + skip) as u32, text[skip..].to_vec()))
        }
        _ => Some((text_off as u32, text.clone())),
    };
    let mspec = MachoSpec {
        entries: entries.clone(),
        stubs,
        stub_helper: helper,
        text: text_spec,
        eh: if with_eh { Some(fdes) } else { None },
        compressed_pages: p.chance(1, 2),
        entries_per_page: 1 + p.below(4) as usize,
        text_as_segment: p.chance(1, 3),
        eh_offsets: eh_probe.fde_offsets.clone(),
    };
    let m = ModSpec {
        start: base_avma + text_off,
        end: base_avma + text_end as u64 + 0x180,
        base_avma,
        base_svma,
        data: DataSpec::Macho(mspec),
        enc: PtrEnc::Abs8,
        hdr_abs: true,
        dbg_version: 4,
        n_cies: 1,
    };
    let mut addrs: Vec<u64> = Vec::new();
    for w2 in entries.windows(2) {
        let (a, b) = (w2[0].0 as u64, w2[1].0 as u64);
        addrs.extend_from_slice(&[a, a + 1, a + 4, b - 1, a + (b - a) / 2]);
    }
    for f in &funcs {
        for i in 0..f.insns.len() {
            addrs.push(text_off + f.start + f.offset_of(i));
        }
    }
    addrs.extend_from_slice(&[text_end as u64, text_end as u64 + 0x2f, text_end as u64 + 0x30, text_end as u64 + 0x47, text_end as u64 + 0x6f, text_end as u64 + 0x70, text_end as u64 + 0x17f, text_off, text_off + 8]);
    (m, addrs)
}

fn random_history<H: ArchH>(rep: &mut Report, p: &mut Prng, arch: Arch, id: u64) {
    let (m, addrs) = gen_random_macho(p, arch);
    let base_avma = m.base_avma;
    let mut w: World<H> = World::new();
    let n_slots = crate::hist::cache_entry_count();
    let mut lines = vec![w.init_line(0, n_slots)];
    let mut impl_outs = vec!["ok".to_string()];
    let mut cmds = vec!["init".to_string()];
    let with_iter = p.chance(1, 2);
    let mut run_op = |w: &mut World<H>, rep: &mut Report, o: Op| {
        let idx = lines.len() as u64;
        let line = o.line(idx);
        let cmd = line.split(' ').next().unwrap().to_string();
        let (ans, obs) = w.exec(&o);
        if let Some(loc) = &obs.panicked {
            rep.add_finding(Finding {
                props: vec!["C09".into(), "C14".into()],
                kind: "oracle".into(),
                key: format!("macho-panic-{}", loc.split(':').take(2).collect::<Vec<_>>().join(":").rsplit('/').next().unwrap_or("?")),
                what: format!("{cmd} panicked at {loc}"),
                case: format!("{}\n{line}", lines.join("\n")),
                impl_out: "panic".into(),
                model_out: String::new(),
            });
        }
        // C06 (only in histories without iterator walks: a walk looks up whatever return
        // addresses the random stack holds, so the "each lookup address is used as one kind of
        // frame" premise of the property cannot be guaranteed there)
        if !with_iter {
            crate::hist::fresh_cache_twin(rep, w, &o, &ans, || format!("{}\n{line}", lines.join("\n")));
            crate::hist::step_oracles(rep, &o, &obs, &ans, || format!("{}\n{line}", lines.join("\n")));
        }
        // C04: a first frame at an address of the module that `__unwind_info` does not cover
        // (before the first entry / at or after the end marker) and that is not in a stub
        // section is a frameless leaf
        if let Op::Unwind { is_ra: false, addr, regs, mem, .. } = &o {
            if let DataSpec::Macho(ms) = &m.data {
                let rel = addr.wrapping_sub(m.base_avma);
                let inside = |r: &Option<(u32, u32)>| r.map(|(a, e)| (a as u64) <= rel && rel < e as u64).unwrap_or(false);
                let first = ms.entries.first().map(|e| e.0 as u64).unwrap_or(0);
                let last = ms.entries.last().map(|e| e.0 as u64).unwrap_or(0);
                if *addr >= m.start && *addr < m.end && (rel < first || rel >= last) && !inside(&ms.stubs) && !inside(&ms.stub_helper) {
                    let expect = crate::hist::leaf_outcome(regs, mem);
                    let got: String = ans.split(' ').filter(|t| !t.starts_with("stats=") && !t.starts_with("t=")).collect::<Vec<_>>().join(" ");
                    rep.count("macho uncovered first frames");
                    if expect != got {
                        rep.add_finding(Finding {
                            props: vec!["C04".into()],
                            kind: "oracle".into(),
                            key: format!("macho-{}-uncovered-first-frame-not-a-leaf", arch.name()),
                            what: format!("the pc lies in a Mach-O module but outside everything __unwind_info covers and outside the stub sections: a first frame there is a frameless leaf, expected {expect}"),
                            case: format!("{}\n{line}", lines.join("\n")),
                            impl_out: got,
                            model_out: String::new(),
                        });
                    }
                }
            }
        }
        lines.push(line);
        cmds.push(cmd);
        impl_outs.push(ans);
    };
    run_op(&mut w, rep, Op::New { u: "u0".into() });
    run_op(&mut w, rep, Op::NewCache { c: "c0".into() });
    run_op(&mut w, rep, Op::Mod { m: "m0".into(), spec: m.clone() });
    run_op(&mut w, rep, Op::Add { u: "u0".into(), m: "m0".into() });
    let n_ops = 12 + p.below(20);
    // each lookup address is used consistently as pc or as return address (instruction analysis
    // makes the cached rule depend on the frame kind)
    let mut kind: std::collections::BTreeMap<u64, bool> = std::collections::BTreeMap::new();
    for _ in 0..n_ops {
        let rel = *p.pick(&addrs);
        let want_ra = p.chance(1, 3);
        let la = if want_ra { (base_avma + rel).wrapping_sub(1) } else { base_avma + rel };
        let is_ra = *kind.entry(la).or_insert(want_ra);
        let addr = if is_ra { la.wrapping_add(1) } else { la };
        let regs = crate::gen::gen_regs(p, arch, addr);
        let mem = crate::gen::gen_mem(p, &regs);
        // (a walk looks its pc up as an instruction pointer, whatever `is_ra` says)
        if with_iter && p.chance(1, 6) && !*kind.entry(addr).or_insert(false) {
            run_op(&mut w, rep, Op::Iter { u: "u0".into(), c: "c0".into(), pc: addr, regs, mem, extra: 0, max: 12 });
        } else {
            run_op(&mut w, rep, Op::Unwind { u: "u0".into(), c: "c0".into(), is_ra, addr, regs, mem });
        }
    }
    // the same call repeated on the same cache: first with a thread state in which every stack
    // read fails, then twice with readable stacks (what a failed or a lucky first call leaves in
    // the cache must not change what the later ones return - C06)
    if !with_iter {
        for _ in 0..4 {
            let rel = *p.pick(&addrs);
            let want_ra = p.chance(1, 3);
            let la = if want_ra { (base_avma + rel).wrapping_sub(1) } else { base_avma + rel };
            let is_ra = *kind.entry(la).or_insert(want_ra);
            let addr = if is_ra { la.wrapping_add(1) } else { la };
            let regs = crate::gen::gen_regs(p, arch, addr);
            let failing = MemDesc::new(Dflt::Fail);
            run_op(&mut w, rep, Op::Unwind { u: "u0".into(), c: "c0".into(), is_ra, addr, regs: regs.clone(), mem: failing });
            for _ in 0..2 {
                let regs = if p.chance(1, 2) { regs.clone() } else { crate::gen::gen_regs(p, arch, addr) };
                let mut mem = crate::gen::gen_mem(p, &regs);
                if mem.default == Dflt::Fail {
                    mem.default = Dflt::Ident;
                }
                mem.cut = None;
                run_op(&mut w, rep, Op::Unwind { u: "u0".into(), c: "c0".into(), is_ra, addr, regs, mem });
            }
        }
    }
    drop(run_op);
    rep.count(&format!("{} random compact-unwind histories", arch.name()));
    push_pending(rep, Pending { arch: arch.name().into(), hist_id: id, lines, impl_outs, cmds, truth: Vec::new(), truth_props: vec![] });
}

fn sp_fp_of(arch: Arch, ans: &str) -> Option<(u64, u64)> {
    match arch {
        Arch::X64 => {
            let regs = ans.split(' ').find_map(|t| t.strip_prefix("regs="))?;
            let v: Vec<u64> = regs.split(',').filter_map(|x| u64::from_str_radix(x, 16).ok()).collect();
            Some((*v.get(7)?, *v.get(6)?))
        }
        Arch::A64 => {
            let sp = ans.split(' ').find_map(|t| t.strip_prefix("sp="))?;
            let fp = ans.split(' ').find_map(|t| t.strip_prefix("fp="))?;
            Some((u64::from_str_radix(sp, 16).ok()?, u64::from_str_radix(fp, 16).ok()?))
        }
    }
}

/// arm64e flavour: return address signing uses `pacibsp` ... `retab` (what the analysers know).
pub fn macho_flavour_pub(f: &mut Func) {
    macho_flavour(f)
}

fn macho_flavour(f: &mut Func) {
    // Apple's ABI puts the frame record at the top of the frame (fp + 16 is the caller's sp)
    for ins in f.insns.iter_mut() {
        match ins.eff {
            Eff::StpFpLrPre(n) if n != 16 => *ins = Insn { bytes: 0xa9bf7bfdu32.to_le_bytes().to_vec(), eff: Eff::StpFpLrPre(16) },
            Eff::LdpFpLrPost(n) if n != 16 => *ins = Insn { bytes: 0xa8c17bfdu32.to_le_bytes().to_vec(), eff: Eff::LdpFpLrPost(16) },
            _ => {}
        }
    }
    let is_a64 = f.insns.iter().all(|i| i.bytes.len() == 4);
    if !f.pac {
        if is_a64 && f.insns.iter().any(|i| matches!(i.eff, Eff::StpFpLrPre(_))) {
            f.rows = crate::prog::compute_rows(Arch::A64, f);
        }
        return;
    }
    let mut out = Vec::new();
    let n = f.insns.len();
    for (i, ins) in f.insns.iter().enumerate() {
        match ins.eff {
            Eff::Sign => out.push(Insn { bytes: 0xd503237fu32.to_le_bytes().to_vec(), eff: Eff::Sign }),
            // `autiasp; ret` becomes `retab`: drop the separate authentication
            Eff::Auth => {}
            Eff::Ret if i + 1 == n => out.push(Insn { bytes: 0xd65f0fffu32.to_le_bytes().to_vec(), eff: Eff::Ret }),
            _ => out.push(ins.clone()),
        }
    }
    // indices of calls and rows shift: recompute
    f.insns = out;
    f.calls = f.insns.iter().enumerate().filter(|(_, i)| i.eff == Eff::Call).map(|(k, _)| k).collect();
    f.rows = crate::prog::compute_rows(Arch::A64, f);
}

// ------------------------------------------------------------------------------------------
// engine `ana`: the analysers through the hooks vs the Lean model

pub fn run_ana(tier: &str, seed: u64) -> Report {
    let mut rep = Report::new("ana");
    let mut p = Prng::new(seed.wrapping_mul(0x3c6e_f372_fe94_f82b).wrapping_add(13));
    let n: u64 = if tier == "thorough" { 600_000 } else { 80_000 };
    let mut lines = Vec::new();
    let mut impls = Vec::new();
    for id in 0..n {
        let arch = if id % 2 == 0 { Arch::X64 } else { Arch::A64 };
        // text: a generated function (optionally preceded by another one), or structured random
        // words / bytes
        let text: Vec<u8> = match p.below(5) {
            // known multi-instruction sequences (epilogues with returns, tail calls and
            // authenticated tail calls; prologues), cut off after every possible length: the
            // function's bytes as delimited by the unwind table may end anywhere
            3 => {
                let full: Vec<u8> = match arch {
                    Arch::A64 => {
                        let mut w: Vec<u32> = Vec::new();
                        if p.chance(1, 2) {
                            w.push(0x9100_03ff | (((16 * (1 + p.below(8))) as u32) << 10)); // add sp, sp, #n
                        }
                        if p.chance(2, 3) {
                            w.push(0xa8c1_7bfd); // ldp x29, x30, [sp], #16
                        }
                        match p.below(5) {
                            0 => w.extend_from_slice(&[0xd503_23ff, 0xca1e_07d0, 0xb6f0_0050, 0xd438_8e20, 0x1400_0040]),
                            1 => w.extend_from_slice(&[0xd503_23ff, 0xca1e_07d0, 0xb6f0_0050, 0xd438_8e20, 0xd280_06f0, *p.pick(&[0xd71f_0a10u32, 0xd71f_0870])]),
                            2 => w.push(0xd65f_0fff), // retab
                            3 => w.push(*p.pick(&[0x1400_0040u32, 0xd61f_0200])),
                            _ => w.extend_from_slice(&[0xd503_237f, 0xd100_83ff, 0xa901_7bfd, 0x9100_43fd]), // pacibsp; sub sp; stp; add x29
                        }
                        w.iter().flat_map(|x| x.to_le_bytes()).collect()
                    }
                    Arch::X64 => {
                        let mut b: Vec<u8> = Vec::new();
                        match p.below(3) {
                            0 => b.extend_from_slice(&[0x48, 0x83, 0xc4, 0x20]),
                            1 => b.extend_from_slice(&[0x48, 0x81, 0xc4, 0x00, 0x01, 0x00, 0x00]),
                            _ => {}
                        }
                        for _ in 0..p.below(4) {
                            let pop: Vec<u8> = p.pick(&[vec![0x5bu8], vec![0x41, 0x5c], vec![0x41, 0x5f], vec![0x5d]]).clone();
                            b.extend_from_slice(&pop);
                        }
                        let tail: Vec<u8> = p.pick(&[vec![0xc3u8], vec![0xe9, 0x40, 0x01, 0x00, 0x00], vec![0xeb, 0x40], vec![0xff, 0xe0], vec![0x55, 0x48, 0x89, 0xe5, 0x41, 0x57, 0x48, 0x81, 0xec, 0x00, 0x01, 0x00, 0x00]]).clone();
                        b.extend_from_slice(&tail);
                        b
                    }
                };
                let keep = 1 + p.below(full.len() as u64) as usize;
                let keep = if arch == Arch::A64 && p.chance(7, 8) { (keep + 3) & !3 } else { keep };
                full[..keep.min(full.len())].to_vec()
            }
            0 | 1 => {
                let shape = *p.pick(&[Shape::FramePointer, Shape::Frameless, Shape::Leaf]);
                let nc = p.below(2) as usize;
                let mut f = gen_func(&mut p, arch, shape, false, 0, nc, false);
                macho_flavour(&mut f);
                let mut t = Vec::new();
                if p.chance(1, 2) {
                    let mut g = gen_func(&mut p, arch, Shape::FramePointer, false, 0, 1, false);
                    macho_flavour(&mut g);
                    t.extend_from_slice(&g.bytes());
                }
                t.extend_from_slice(&f.bytes());
                t
            }
            2 => {
                let n = 4 + p.below(12) as usize;
                structured(&mut p, arch, n)
            }
            _ => (0..(p.below(40) + 1)).map(|_| p.next() as u8).collect(),
        };
        let pc = match p.below(8) {
            0 => text.len() as u64,
            _ => {
                let x = p.below(text.len() as u64 + 1);
                if arch == Arch::A64 && p.chance(7, 8) { x & !3 } else { x }
            }
        };
        let out = match arch {
            Arch::X64 => catch(|| hooks::analyze_x86_64(&text, pc as usize)).map(|r| r.map(|r| show_rule_x(&r))),
            Arch::A64 => catch(|| hooks::analyze_aarch64(&text, pc as usize)).map(|r| r.map(|r| show_rule_a(&r))),
        };
        let s = match out {
            Err(loc) => {
                rep.add_finding(Finding {
                    props: vec!["C14".into(), "C09".into()],
                    kind: "oracle".into(),
                    key: format!("ana-panic-{}", loc.split(':').take(2).collect::<Vec<_>>().join(":")),
                    what: format!("instruction analysis panicked at {loc}"),
                    case: format!("arch={} pc={pc} text={}", arch.name(), text.iter().map(|b| format!("{b:02x}")).collect::<String>()),
                    impl_out: "panic".into(),
                    model_out: String::new(),
                });
                "panic".to_string()
            }
            Ok(None) => "none".into(),
            Ok(Some(r)) => format!("rule:{r}"),
        };
        rep.count(&format!("{} analysis -> {}", arch.name(), s.split(':').take(2).collect::<Vec<_>>().join(":")));
        let line = format!("ana {id} arch={} pc={} text={}", arch.name(), hex(pc), text.iter().map(|b| format!("{b:02x}")).collect::<String>());
        rep.note_distinct(&line[line.find("arch").unwrap()..]);
        if id % 4999 == 0 {
            rep.sample(format!("{line} => {s}"));
        }
        lines.push(line);
        impls.push(s);
    }
    rep.cases = lines.len() as u64;
    let model = crate::model::run_model(&lines);
    rep.compared_with_model = model.len() as u64;
    for ((l, i), m) in lines.iter().zip(impls.iter()).zip(model.iter()) {
        if i != m {
            let arch = if l.contains("arch=x64") { "x64" } else { "a64" };
            rep.add_finding(Finding {
                props: vec!["C02".into(), "C14".into()],
                kind: "correspondence".into(),
                key: format!("instruction-analysis-{arch}"),
                what: "instruction analysis differs from the Lean model (anaX64 / anaA64)".into(),
                case: l.clone(),
                impl_out: i.clone(),
                model_out: m.clone(),
            });
        }
    }
    rep
}

/// Words/bytes from every class the analysers distinguish, with random fill.
fn structured(p: &mut Prng, arch: Arch, n: usize) -> Vec<u8> {
    let mut t = Vec::new();
    for _ in 0..n {
        match arch {
            Arch::X64 => {
                let b: Vec<u8> = match p.below(16) {
                    13 => vec![0x48, 0x83, 0xc4, p.next() as u8],
                    14 => vec![0x48, 0x81, 0xc4, p.next() as u8, 0, 0, 0],
                    0 => vec![0x55],
                    1 => vec![0x48, 0x89, 0xe5],
                    2 => vec![0x50 + p.below(8) as u8],
                    3 => vec![0x41, 0x50 + p.below(8) as u8],
                    4 => vec![0x48, 0x83, 0xec, p.next() as u8],
                    5 => vec![0x48, 0x81, 0xec, p.next() as u8, 0, 0, 0],
                    6 => vec![0x58 + p.below(8) as u8],
                    7 => vec![0x41, 0x58 + p.below(8) as u8],
                    8 => vec![0xc3],
                    9 => vec![*p.pick(&[0xebu8, 0xe9, 0xff]), p.next() as u8],
                    10 => vec![0x83, 0xec, 8],
                    11 => vec![0x81, 0xec, 0, 1, 0, 0],
                    12 => vec![0x40, 0x5d],
                    _ => vec![p.next() as u8],
                };
                t.extend_from_slice(&b);
            }
            Arch::A64 => {
                let imm7 = (p.next() as u32) & 0x7f;
                let imm12 = (p.next() as u32) & 0xfff;
                let rt = *p.pick(&[29u32, 30, 19, 20, 31]);
                let rt2 = *p.pick(&[30u32, 29, 21, 31]);
                let rn = *p.pick(&[31u32, 31, 31, 29, 0]);
                let w: u32 = match p.below(18) {
                    0 => 0xd503237f,
                    1 => 0x910003fd,
                    2 => 0xa9800000 | (imm7 << 15) | (rt2 << 10) | (rn << 5) | rt, // stp pre
                    3 => 0xa9000000 | (imm7 << 15) | (rt2 << 10) | (rn << 5) | rt, // stp offset
                    4 => 0xa8800000 | (imm7 << 15) | (rt2 << 10) | (rn << 5) | rt, // stp post
                    5 => 0xd1000000 | ((p.below(2) as u32) << 22) | (imm12 << 10) | (rn << 5) | *p.pick(&[31u32, 29, 0]), // sub
                    6 => 0x91000000 | ((p.below(2) as u32) << 22) | (imm12 << 10) | (rn << 5) | *p.pick(&[31u32, 29, 0]), // add
                    7 => 0xa8c00000 | (imm7 << 15) | (rt2 << 10) | (rn << 5) | rt, // ldp post
                    8 => 0xa9400000 | (imm7 << 15) | (rt2 << 10) | (rn << 5) | rt, // ldp offset
                    9 => 0xa9c00000 | (imm7 << 15) | (rt2 << 10) | (rn << 5) | rt, // ldp pre
                    10 => 0xd65f03c0,
                    11 => 0xd65f0fff,
                    12 => 0xd50323ff,
                    13 => *p.pick(&[0xca1e07d0u32, 0xb6f00050, 0xd4388e20]),
                    14 => 0x14000000 | ((p.next() as u32) & 0x3ffffff),
                    15 => 0xd61f0000 | (((p.next() as u32) & 31) << 5),
                    16 => *p.pick(&[0xd28006f0u32, 0xd71f0870, 0xd71f0a10]),
                    _ => p.next() as u32,
                };
                t.extend_from_slice(&w.to_le_bytes());
            }
        }
    }
    t
}
